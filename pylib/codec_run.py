"""Runs codec ops item-by-item with crash isolation."""
from . import runner


def run_items(cfg, jobs_spec, on_item, batch=100, stall_timeout=60):
    """jobs_spec: list of (kind, fn, item, tag).  Calls on_item(spec, result, crash)
    exactly once per spec; result is the executor's per-item result dict, crash
    a crash record (then result is None)."""
    groups = {}
    for sp in jobs_spec:
        groups.setdefault((sp[0], sp[1]), []).append(sp)
    cases, index = [], {}
    n = 0
    for (kind, fn), sps in groups.items():
        for s in range(0, len(sps), batch):
            chunk = sps[s:s + batch]
            cid = "b%d" % n
            n += 1
            index[cid] = chunk
            cases.append({"id": cid, "ops": [{"op": "codec", "kind": kind, "fn": fn, "items": [c[2] for c in chunk]}]})
    retry = []

    def on_batch(res):
        chunk = index[res.case["id"]]
        if res.crash:
            retry.extend(chunk)
            return
        ev = res.events[0]
        if "exc" in ev:
            for sp in chunk:
                on_item(sp, None, {"kind": "harness:" + ev["exc"]["type"], "site": "?", "op": "codec",
                                   "stderr": bytes.fromhex(ev["exc"].get("what", "")).decode(errors="replace")})
            return
        for sp, r in zip(chunk, ev["ret"]):
            on_item(sp, r, None)

    runner.run_cases(cases, cfg=cfg, on_result=on_batch, stall_timeout=stall_timeout)
    if retry:
        cases2, index2 = [], {}
        for k, sp in enumerate(retry):
            cid = "r%d" % k
            index2[cid] = sp
            cases2.append({"id": cid, "ops": [{"op": "codec", "kind": sp[0], "fn": sp[1], "items": [sp[2]]}]})

        def on_single(res):
            sp = index2[res.case["id"]]
            if res.crash:
                on_item(sp, None, res.crash)
                return
            ev = res.events[0]
            if "exc" in ev:
                on_item(sp, None, {"kind": "harness:" + ev["exc"]["type"], "site": "?", "op": "codec", "stderr": ""})
                return
            on_item(sp, ev["ret"][0], None)

        runner.run_cases(cases2, cfg=cfg, on_result=on_single, stall_timeout=stall_timeout, chunk=8)
