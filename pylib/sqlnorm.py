"""SQL schema normalisation for C12/C17: a real tokenizer (identifier quoting with [], "" and back-quotes
stripped, string literals kept verbatim, whitespace and comments dropped, keywords and identifiers case-folded),
reference-dump hydration with Python's own sqlite3, and schema extraction."""
import os
import re
import sqlite3


def tokenize(sql):
    """Token list of an SQL text, modulo whitespace and identifier quoting."""
    toks = []
    i, n = 0, len(sql)
    while i < n:
        c = sql[i]
        if c.isspace():
            i += 1
        elif c == "-" and sql[i:i + 2] == "--":
            j = sql.find("\n", i)
            i = n if j < 0 else j + 1
        elif c == "/" and sql[i:i + 2] == "/*":
            j = sql.find("*/", i + 2)
            i = n if j < 0 else j + 2
        elif c == "'":
            j = i + 1
            while j < n:
                if sql[j] == "'":
                    if sql[j:j + 2] == "''":
                        j += 2
                        continue
                    break
                j += 1
            toks.append(("str", sql[i:j + 1]))
            i = j + 1
        elif c in "\"`[":
            close = "]" if c == "[" else c
            j = sql.find(close, i + 1)
            if j < 0:
                j = n
            toks.append(("id", sql[i + 1:j].lower()))
            i = j + 1
        elif c.isalpha() or c == "_":
            j = i
            while j < n and (sql[j].isalnum() or sql[j] in "_$"):
                j += 1
            toks.append(("id", sql[i:j].lower()))
            i = j
        elif c.isdigit():
            j = i
            while j < n and (sql[j].isalnum() or sql[j] == "."):
                j += 1
            toks.append(("num", sql[i:j].lower()))
            i = j
        else:
            # operators / punctuation; two-char operators
            two = sql[i:i + 2]
            if two in ("<>", "!=", "<=", ">=", "||", "==", "<<", ">>"):
                toks.append(("op", two))
                i += 2
            else:
                toks.append(("op", c))
                i += 1
    return toks


def norm_sql(sql):
    if sql is None:
        return None
    return tuple(tokenize(sql))


def hydrate(sql_path):
    """In-memory database built from a .sql dump, statement by statement."""
    con = sqlite3.connect(":memory:")
    buf = ""
    errors = []
    with open(sql_path, encoding="utf-8", errors="surrogateescape") as f:
        for line in f:
            buf += line
            if sqlite3.complete_statement(buf):
                stmt = buf.strip()
                buf = ""
                if not stmt or stmt.upper().startswith(("BEGIN", "COMMIT", "PRAGMA")):
                    continue
                try:
                    con.execute(stmt)
                except sqlite3.Error as e:
                    errors.append((stmt[:80], str(e)))
    return con, errors


def extract(con, dbname="main"):
    """{(type, name): {"sql": tokens|None, "tbl": tbl_name, "cols": [...]}} for every user object."""
    out = {}
    q = 'SELECT type, name, tbl_name, sql FROM "%s".sqlite_master' % dbname
    for typ, name, tbl, sql in con.execute(q).fetchall():
        if name.startswith("sqlite_") and typ == "table":
            continue
        ent = {"sql": norm_sql(sql), "tbl": tbl.lower(), "raw": sql}
        if typ in ("table", "view"):
            try:
                cols = con.execute('PRAGMA "%s".table_info("%s")' % (dbname, name)).fetchall()
                ent["cols"] = [(c[0], c[1].lower(), (c[2] or "").lower(), c[3], c[4], c[5]) for c in cols]
            except sqlite3.Error as e:
                ent["cols"] = ("error", str(e))
        out[(typ, name.lower())] = ent
    return out


def diff_schemas(a, b):
    """Differences between two extracted schemas: list of (rule, name, detail)."""
    out = []
    for k in sorted(set(a) - set(b)):
        out.append(("extra-" + k[0], k[1], "present in the created library, absent from the reference"))
    for k in sorted(set(b) - set(a)):
        out.append(("missing-" + k[0], k[1], "present in the reference, absent from the created library"))
    for k in sorted(set(a) & set(b)):
        x, y = a[k], b[k]
        if x["sql"] != y["sql"]:
            # first differing token
            xs, ys = x["sql"] or (), y["sql"] or ()
            i = next((j for j in range(min(len(xs), len(ys))) if xs[j] != ys[j]), min(len(xs), len(ys)))
            out.append(("sql-differs-" + k[0], k[1], "token %d: created %s vs reference %s" %
                        (i, [t[1] for t in xs[max(0, i - 2):i + 3]], [t[1] for t in ys[max(0, i - 2):i + 3]])))
        if x.get("cols") != y.get("cols"):
            out.append(("columns-differ-" + k[0], k[1], "table_info: created %s vs reference %s" % (str(x.get("cols"))[:160], str(y.get("cols"))[:160])))
        if x["tbl"] != y["tbl"]:
            out.append(("tbl_name-differs-" + k[0], k[1], "%s vs %s" % (x["tbl"], y["tbl"])))
    return out


def reference_dirs(repo="/repo"):
    root = os.path.join(repo, "testdata", "ref", "engine")
    dirs = []
    for d, _sub, files in os.walk(root):
        if any(f.endswith(".db.sql") for f in files):
            dirs.append(d)
    return sorted(dirs)


def version_of(con):
    try:
        row = con.execute("SELECT schemaVersionMajor, schemaVersionMinor, schemaVersionPatch FROM Information").fetchone()
    except sqlite3.Error:
        return None
    return tuple(row) if row else None
