"""libFuzzer stage for C05: coverage-guided mutation over the codec units."""
import glob
import os
import re
import shutil
import subprocess
import time
from concurrent.futures import ThreadPoolExecutor

from . import build, runner

# selector order must match exec/fuzz/fuzz_codec.cpp (sorted KINDS + zlib)
SELECT = ["v1_beat_data", "v1_high_res", "v1_loops", "v1_overview", "v1_quick_cues", "v1_track_data",
          "v2_beat_data", "v2_loops", "v2_overview", "v2_quick_cues", "v2_track_data", "zlib"]

CODEC_UNITS = ["src/djinterop/engine/encode_decode_utils.cpp",
               "src/djinterop/engine/v2/beat_data_blob.cpp", "src/djinterop/engine/v2/loops_blob.cpp",
               "src/djinterop/engine/v2/overview_waveform_data_blob.cpp", "src/djinterop/engine/v2/quick_cues_blob.cpp",
               "src/djinterop/engine/v2/track_data_blob.cpp", "src/djinterop/engine/v1/performance_data_format.cpp"]


def ensure_fuzzer():
    th = build.tree_hash()
    base = os.path.join(build.CACHE, th, "fuzz")
    os.makedirs(base, exist_ok=True)
    src = os.path.join(build.VERIF, "exec", "fuzz", "fuzz_codec.cpp")
    import hashlib
    eh = hashlib.sha256(open(src, "rb").read()).hexdigest()[:12]
    exe = os.path.join(base, "fuzz_codec_" + eh)
    if os.path.exists(exe):
        return exe
    incdir = os.path.join(build.CACHE, th, "include")
    build._gen_config(incdir)
    cmd = ["clang++-14", "-std=gnu++17", "-O1", "-g", "-w", "-fsanitize=fuzzer,address,undefined",
           "-fno-sanitize-recover=all", "-fno-sanitize=object-size", "-D_GLIBCXX_ASSERTIONS",
           "-I" + incdir, "-I" + os.path.join(build.REPO, "include"), "-I" + os.path.join(build.REPO, "src"),
           "-DDJINTEROP_SOURCE", "-D" + build.GUARD + "=1", src] + \
          [os.path.join(build.REPO, u) for u in CODEC_UNITS] + ["-lz", "-ldl", "-o", exe + ".tmp"]
    p = subprocess.run(cmd, stdout=subprocess.PIPE, stderr=subprocess.STDOUT)
    if p.returncode != 0:
        raise build.BuildError("fuzzer build failed:\n" + p.stdout.decode(errors="replace")[-3000:])
    os.rename(exe + ".tmp", exe)
    return exe


def run_stage(ctx, seeds):
    quick = ctx.tier == "quick"
    jobs = 16
    runs_each = 15000 if quick else 1500000
    exe = ensure_fuzzer()
    work = runner.scratch_dir("djfuzz_")
    try:
        corpus = os.path.join(work, "corpus")
        os.makedirs(corpus)
        n = 0
        for kind, blobs in seeds.items():
            sel = SELECT.index(kind)
            for b in blobs:
                if len(b) < 65000:
                    with open(os.path.join(corpus, "seed%d" % n), "wb") as f:
                        f.write(bytes([sel]) + b)
                    n += 1
        # committed corpus (small) if present
        cdir = os.path.join(build.VERIF, "corpus")
        if os.path.isdir(cdir):
            for fn in os.listdir(cdir):
                shutil.copy(os.path.join(cdir, fn), os.path.join(corpus, "c_" + fn))

        def one(j):
            art = os.path.join(work, "art%d_" % j)
            own = os.path.join(work, "corp%d" % j)
            os.makedirs(own)
            log = os.path.join(work, "log%d.txt" % j)
            env = dict(os.environ)
            env["ASAN_OPTIONS"] = "detect_leaks=0:allocator_may_return_null=1:quarantine_size_mb=8:alloc_dealloc_mismatch=0"
            env["UBSAN_OPTIONS"] = "print_stacktrace=1"
            with open(log, "wb") as lf:
                p = subprocess.run([exe, "-runs=%d" % runs_each, "-max_len=65536", "-timeout=10",
                                    "-rss_limit_mb=6000", "-malloc_limit_mb=6000", "-seed=%d" % (ctx.seed * 100 + j + 1),
                                    "-artifact_prefix=" + art, "-print_final_stats=1", "-len_control=50",
                                    own, corpus], stdout=lf, stderr=subprocess.STDOUT, env=env,
                                   timeout=(600 if quick else 7200))
            txt = open(log, "rb").read().decode(errors="replace")
            return j, p.returncode, txt

        t0 = time.time()
        with ThreadPoolExecutor(jobs) as ex:
            outs = list(ex.map(one, range(jobs)))
        total_units = 0
        cov = 0
        ft = 0
        for j, rc, txt in outs:
            m = re.search(r"stat::number_of_executed_units:\s+(\d+)", txt)
            if m:
                total_units += int(m.group(1))
            for m in re.finditer(r"cov: (\d+) ft: (\d+)", txt):
                cov = max(cov, int(m.group(1)))
                ft = max(ft, int(m.group(2)))
        ctx.extra["fuzz"] = {"jobs": jobs, "executed_units": total_units, "edges_covered": cov, "features": ft,
                             "wall_s": round(time.time() - t0, 1), "seed_corpus": n}
        ctx.count(total_units)
        ctx.bump_in("inputs_by_family", "libfuzzer", total_units)
        # triage artifacts through dj_exec, one process per artifact
        arts = sorted(glob.glob(os.path.join(work, "art*_*")))
        ctx.extra["fuzz"]["artifacts"] = len(arts)
        if arts:
            from .checks import c05
            tri = []
            for a in arts[:200]:
                data = open(a, "rb").read()
                if not data:
                    continue
                kind = SELECT[data[0] % 12]
                tri.append((kind, {"op": "decode_many", "kind": kind, "inputs": [data[1:].hex()]}, "libfuzzer-artifact", True))
            before = len(ctx.viol)
            c05.run_ops(ctx, tri)
            if len(ctx.viol) == before:
                # the executor did not reproduce: report the fuzzer's own finding
                for j, rc, txt in outs:
                    if rc != 0:
                        m = re.search(r"(ERROR: \w+Sanitizer: [^\n]+|runtime error: [^\n]+|VERIF-MONITOR: [^\n]+|ERROR: libFuzzer: [^\n]+)", txt)
                        what = m.group(1) if m else "fuzzer exited with %d" % rc
                        kind_txt = re.sub(r"0x[0-9a-f]+", "P", what)
                        kind_txt = re.sub(r"\d+", "N", kind_txt)[:100]
                        ctx.violation("fuzz-only " + kind_txt, "libFuzzer reported: " + what,
                                      {"log_tail": txt[-3000:]})
        else:
            for j, rc, txt in outs:
                if rc != 0:
                    ctx.fail_harness("fuzzer job %d exited %d without artifact: %s" % (j, rc, txt[-300:]))
    finally:
        shutil.rmtree(work, ignore_errors=True)
