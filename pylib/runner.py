"""Runs cases through dj_exec in parallel, with crash/hang attribution.

A *case* is {"id": str, "ops": [...]}.  For each case the caller gets back a
CaseResult: the events that completed, and - if the process died or hung while
the case was running - a crash record naming the op in progress, the kind of
death, and a line-number-free signature taken from the sanitizer report.
"""
import json
import os
import re
import shutil
import signal
import subprocess
import tempfile
import threading
import time
from concurrent.futures import ThreadPoolExecutor

from . import build

SHM = "/dev/shm" if os.path.isdir("/dev/shm") else tempfile.gettempdir()


def scratch_dir(prefix="djv_"):
    return tempfile.mkdtemp(prefix=prefix, dir=SHM)


class CaseResult:
    __slots__ = ("case", "events", "crash", "complete")

    def __init__(self, case):
        self.case = case
        self.events = []
        self.crash = None
        self.complete = False

    def ev(self, i):
        return self.events[i] if i < len(self.events) else None


_FRAME = re.compile(r"#\d+\s+0x[0-9a-f]+\s+in\s+(.+?)\s+(/\S+?):\d+")
_BT = re.compile(r"\(([_A-Za-z0-9]+)\+0x[0-9a-f]+\)")


def _demangle(names):
    if not names:
        return []
    try:
        p = subprocess.run(["c++filt"], input="\n".join(names).encode(), stdout=subprocess.PIPE, timeout=10)
        return p.stdout.decode(errors="replace").splitlines()
    except Exception:
        return names


def _short_fn(fn):
    fn = re.sub(r"\(.*$", "", fn)
    fn = re.sub(r"<.*>", "<>", fn)
    return fn.strip()


def parse_crash(stderr_text, returncode, hung):
    """Reduce a dead process's stderr to (kind, site, excerpt)."""
    kind = None
    site = None
    lines = stderr_text.splitlines()
    for ln in lines:
        m = re.search(r"ERROR: AddressSanitizer: ([a-zA-Z0-9\-_ ]+?)( on | \(|:|$)", ln)
        if m:
            kind = "asan:" + m.group(1).strip().replace(" ", "-")
            break
        m = re.search(r"WARNING: ThreadSanitizer: ([a-zA-Z0-9\-_ ]+?)( \(|$)", ln)
        if m:
            kind = "tsan:" + m.group(1).strip().replace(" ", "-")
            break
        m = re.search(r"runtime error: (.*)", ln)
        if m:
            msg = re.sub(r"0x[0-9a-f]+", "P", m.group(1))
            msg = re.sub(r"-?\d+(\.\d+)?(e[+-]?\d+)?", "N", msg)
            msg = re.sub(r"'[^']*'", "T", msg)
            kind = "ubsan:" + msg.strip()[:80]
            break
        m = re.search(r"Assertion [`'](.+?)' failed", ln)
        if m:
            kind = "assert:" + m.group(1)[:80]
            break
        m = re.search(r"terminate called after throwing an instance of '(.+?)'", ln)
        if m:
            kind = "terminate:" + m.group(1)
            break
        m = re.search(r"terminate called", ln)
        if m:
            kind = "terminate"
            break
    if kind and kind.startswith("asan:"):
        for ln in lines:
            m = re.match(r"^(READ|WRITE) of size", ln.strip())
            if m:
                kind += ":" + m.group(1)
                break
    if kind is None:
        for ln in lines:
            m = re.search(r"HARNESS-SIGNAL (\w+)", ln)
            if m:
                kind = "signal:" + m.group(1)
                break
    if kind is None:
        if hung:
            kind = "hang"
        elif returncode is not None and returncode < 0:
            try:
                kind = "signal:" + signal.Signals(-returncode).name
            except Exception:
                kind = "signal:%d" % -returncode
        else:
            kind = "exit:%s" % returncode
    # innermost frame inside the repository
    for ln in lines:
        m = _FRAME.search(ln)
        if m and "/repo/" in m.group(2) and "/verif/" not in m.group(2):
            site = _short_fn(m.group(1))
            break
    if site is None:
        syms = []
        for ln in lines:
            m = _BT.search(ln)
            if m and m.group(1).startswith("_Z"):
                syms.append(m.group(1))
        for d in _demangle(syms):
            if "djinterop" in d and "dispatch_" not in d:
                site = _short_fn(d)
                break
    excerpt = "\n".join(lines[:40])[:4000]
    return kind, site or "?", excerpt


def _env(cfg):
    env = dict(os.environ)
    env["ASAN_OPTIONS"] = ("abort_on_error=0:detect_leaks=0:exitcode=86:handle_abort=1:"
                           "allocator_may_return_null=1:detect_stack_use_after_return=0:"
                           "quarantine_size_mb=16:malloc_context_size=8")
    env["UBSAN_OPTIONS"] = "print_stacktrace=1:halt_on_error=1:exitcode=87"
    env["TSAN_OPTIONS"] = "halt_on_error=1:exitcode=88:second_deadlock_stack=1"
    return env


class _Proc:
    def __init__(self, exe, cases, workdir, cfg, tag):
        self.cases = cases
        self.path = os.path.join(workdir, f"cases_{tag}.jsonl")
        self.errpath = os.path.join(workdir, f"err_{tag}.txt")
        self.witness = os.path.join(workdir, f"wit_{tag}.bin")
        with open(self.path, "w") as f:
            for c in cases:
                f.write(json.dumps(c, separators=(",", ":")))
                f.write("\n")
        self.err = open(self.errpath, "wb")
        self.p = subprocess.Popen([exe, self.path, "--witness", self.witness],
                                  stdout=subprocess.PIPE, stderr=self.err, env=dict(_env(cfg), VERIF_WORKDIR=workdir),
                                  bufsize=1 << 16)
        self.last = time.time()
        self.hung = False

    def close(self):
        try:
            self.err.close()
        except Exception:
            pass
        for p in (self.path, self.errpath, self.witness):
            try:
                os.remove(p)
            except OSError:
                pass

    def read_witness(self):
        try:
            with open(self.witness, "rb") as f:
                data = f.read()
            tag = data[:64].split(b"\0")[0].decode(errors="replace")
            ln = int.from_bytes(data[64:68], "little")
            full = int.from_bytes(data[68:72], "little")
            return {"tag": tag, "len": full, "hex": data[72:72 + ln].hex()}
        except Exception:
            return None


ENV_STATS = {}

# POSIX TZ strings (no tzdata needed): the process time zone is part of the environment a library runs in
TZ_POOL = ["CET-1CEST,M3.5.0,M10.5.0/3", "EST5EDT,M3.2.0,M11.1.0", "IST-5:30", "AEST-10AEDT,M10.1.0,M4.1.0/3", "NPT-5:45", "<+14>-14", "<-12>12"]


def assign_time_zones(cases):
    """One case in four runs in a non-UTC process time zone; the zone travels in the first op, so witnesses replay it."""
    import zlib as _z
    for c in cases:
        ops = c.get("ops") or []
        if not ops or "tz" in ops[0] or c.get("no_tz"):
            continue
        h = _z.crc32(str(c.get("id")).encode())
        if h % 4 == 0:
            ops[0]["tz"] = TZ_POOL[(h // 4) % len(TZ_POOL)]


LOCALE_POOL = ["en_US-like", "de_DE-like"]


def assign_locales(cases):
    """One case in six runs under a global C++ locale with digit grouping and (for one of the two) a decimal comma,
    installed by the first op (so witnesses replay it)."""
    import zlib as _z
    for c in cases:
        ops = c.get("ops") or []
        if not ops or "locale" in ops[0] or c.get("no_locale"):
            continue
        h = _z.crc32(("l" + str(c.get("id"))).encode())
        if h % 6 == 0:
            ops[0]["locale"] = LOCALE_POOL[(h // 6) % len(LOCALE_POOL)]


def assign_storage(cases):
    """One case in five that asks for a temporary (in-memory) library gets an on-disk one instead, in a directory under
    the runner's scratch area ("@W/<id>", resolved, made and removed by the executor); the choice travels in the op."""
    import zlib as _z
    for c in cases:
        ops = c.get("ops") or []
        if not ops or c.get("no_disk") or ops[0].get("op") not in ("create_temporary", "lib_create_temporary"):
            continue
        if any(o.get("lib") for o in ops):
            continue
        if _z.crc32(("s" + str(c.get("id"))).encode()) % 5 == 0:
            ops[0]["op"] = "create" if ops[0]["op"] == "create_temporary" else "lib_create"
            # ... and every third of those is opened by a path relative to the working directory ("@R/<id>")
            rel = _z.crc32(("r" + str(c.get("id"))).encode()) % 3 == 0
            ops[0]["dir"] = ("@R/" if rel else "@W/") + str(c.get("id"))
            ENV_STATS["cases_moved_to_an_on_disk_library"] = ENV_STATS.get("cases_moved_to_an_on_disk_library", 0) + 1
            if rel:
                ENV_STATS["cases_opened_by_a_relative_directory"] = ENV_STATS.get("cases_opened_by_a_relative_directory", 0) + 1


def _run_chunk(exe, cfg, cases, workdir, tag, stall_timeout, on_result):
    """Run one chunk of cases sequentially, restarting after deaths."""
    pending = list(cases)
    attempt = 0
    while pending:
        attempt += 1
        pr = _Proc(exe, pending, workdir, cfg, f"{tag}_{attempt}")
        by_id = {c["id"]: c for c in pending}
        order = [c["id"] for c in pending]
        cur = None
        done_ids = set()
        stop_watch = threading.Event()

        def watchdog():
            while not stop_watch.wait(1.0):
                if time.time() - pr.last > stall_timeout and pr.p.poll() is None:
                    pr.hung = True
                    try:
                        pr.p.kill()
                    except Exception:
                        pass
                    return

        wt = threading.Thread(target=watchdog, daemon=True)
        wt.start()
        try:
            for raw in pr.p.stdout:
                pr.last = time.time()
                try:
                    d = json.loads(raw)
                except Exception:
                    continue
                if "case" in d:
                    cur = CaseResult(by_id[d["case"]])
                elif "end" in d:
                    if cur is not None:
                        cur.complete = True
                        done_ids.add(cur.case["id"])
                        on_result(cur)
                        cur = None
                else:
                    if cur is not None:
                        cur.events.append(d)
            pr.p.wait()
        finally:
            stop_watch.set()
        rc = pr.p.returncode
        pr.err.flush()
        if cur is not None or (rc != 0) or len(done_ids) < len(order):
            try:
                with open(pr.errpath, "rb") as f:
                    errtxt = f.read().decode(errors="replace")
            except OSError:
                errtxt = ""
            kind, site, excerpt = parse_crash(errtxt, rc, pr.hung)
            if cur is None:
                # died between cases (or before the first): attribute to the next case, op -1
                nxt = next((i for i in order if i not in done_ids), None)
                if nxt is None:
                    pr.close()
                    break
                cur = CaseResult(by_id[nxt])
                opi = -1
            else:
                opi = len(cur.events)
            if pr.hung and not cur.case.get("_hang_retry"):
                # the wall-clock watchdog is only a backstop (termination is judged by logical budgets): on a loaded machine
                # it can fire on a healthy process, so the case is run once more, alone, with five times the allowance,
                # and only a second silence is reported as a hang
                ENV_STATS["watchdog_firings_retried"] = ENV_STATS.get("watchdog_firings_retried", 0) + 1
                again = dict(cur.case)
                again["_hang_retry"] = True
                done_ids.add(cur.case["id"])
                idx = order.index(cur.case["id"])
                pending = [by_id[i] for i in order[idx + 1:]]
                pr.close()
                _run_chunk(exe, cfg, [again], workdir, f"{tag}_{attempt}r", stall_timeout * 5, on_result)
                continue
            ops = cur.case.get("ops", [])
            cur.crash = {"kind": kind, "site": site, "op_index": opi,
                         "op": ops[opi]["op"] if 0 <= opi < len(ops) else None,
                         "rc": rc, "hung": pr.hung, "stderr": excerpt,
                         "witness": pr.read_witness()}
            done_ids.add(cur.case["id"])
            on_result(cur)
            idx = order.index(cur.case["id"])
            pending = [by_id[i] for i in order[idx + 1:]]
        else:
            pending = []
        pr.close()


def run_cases(cases, cfg="plain", jobs=None, stall_timeout=60, on_result=None, chunk=None):
    """Run all cases; returns list of CaseResult in completion order."""
    exe = build.ensure(cfg)
    jobs = jobs or min(16, os.cpu_count() or 4)
    cases = list(cases)
    assign_time_zones(cases)
    assign_locales(cases)
    assign_storage(cases)
    for c in cases:
        lc = (c.get("ops") or [{}])[0].get("locale")
        if lc:
            ENV_STATS.setdefault("cases_run_under_a_global_locale_with_digit_grouping", {})[lc] = \
                ENV_STATS.get("cases_run_under_a_global_locale_with_digit_grouping", {}).get(lc, 0) + 1
        tz = (c.get("ops") or [{}])[0].get("tz")
        if tz:
            ENV_STATS["cases_run_in_a_non_utc_time_zone"] = ENV_STATS.get("cases_run_in_a_non_utc_time_zone", 0) + 1
            ENV_STATS.setdefault("time_zones", {})[tz] = ENV_STATS.get("time_zones", {}).get(tz, 0) + 1
    results = []
    lock = threading.Lock()

    def collect(r):
        with lock:
            if on_result:
                # the caller consumes each result as it arrives: nothing is kept (a thorough tier runs millions of cases)
                on_result(r)
            else:
                results.append(r)

    if not cases:
        return results
    if chunk is None:
        chunk = max(1, min(200, (len(cases) + jobs * 4 - 1) // (jobs * 4)))
    chunks = [cases[i:i + chunk] for i in range(0, len(cases), chunk)]
    workdir = scratch_dir("djrun_")
    try:
        with ThreadPoolExecutor(jobs) as ex:
            futs = [ex.submit(_run_chunk, exe, cfg, ch, workdir, str(n), stall_timeout, collect)
                    for n, ch in enumerate(chunks)]
            for f in futs:
                f.result()
    finally:
        shutil.rmtree(workdir, ignore_errors=True)
    return results


def run_one(case, cfg="plain", stall_timeout=60):
    r = run_cases([case], cfg=cfg, jobs=1, stall_timeout=stall_timeout)
    return r[0]
