"""Build cache: compiles /repo's working tree into static archives and links the executor.

Everything is keyed by a hash of the repository's source tree, so a check can
never run against a stale library, and twenty checks on one tree build once.
"""
import hashlib
import os
import re
import shutil
import subprocess
import sys
import time
from concurrent.futures import ThreadPoolExecutor

VERIF = os.path.dirname(os.path.dirname(os.path.abspath(__file__)))
REPO = os.environ.get("VERIF_REPO", "/repo")
CACHE = os.path.join(VERIF, ".cache")
GUARD = "XSCO_LIBDJINTEROP_VERIF"

CONFIGS = {
    # behavioural checks: optimised, library asserts enabled, no sanitizer
    "plain": dict(cxx="g++", flags=["-O2", "-g1"], link=[]),
    # memory / UB checks
    "san": dict(
        cxx="g++",
        flags=["-O1", "-g", "-fno-omit-frame-pointer",
               "-fsanitize=address,undefined,float-cast-overflow,float-divide-by-zero",
               "-fno-sanitize-recover=all", "-D_GLIBCXX_ASSERTIONS",
               "-DVERIF_SAN=1"],
        link=["-fsanitize=address,undefined"]),
    # race detector: the pure functions called from several threads at once
    "tsan": dict(cxx="g++", flags=["-O1", "-g", "-fno-omit-frame-pointer", "-fsanitize=thread", "-DVERIF_TSAN=1"],
                 link=["-fsanitize=thread"]),
    # not used by any registered command: line/function coverage of the library under the checks' own workloads
    # (tools/coverage_gaps.py runs the quick tiers with VERIF_FORCE_CFG=cov and lists what no workload reached)
    "cov": dict(cxx="g++", flags=["-O0", "-g", "--coverage", "-fprofile-update=atomic"], link=["--coverage"]),
}

EXEC_SOURCES = ["main.cpp", "shims.cpp", "ops_api.cpp", "ops_codec.cpp", "ops_table.cpp"]


def _iter_tree_files():
    roots = ["src", "include", "ext", "CMakeLists.txt"]
    for r in roots:
        p = os.path.join(REPO, r)
        if os.path.isfile(p):
            yield p
        else:
            for d, dirs, files in os.walk(p):
                dirs.sort()
                for f in sorted(files):
                    yield os.path.join(d, f)


def tree_hash():
    h = hashlib.sha256()
    for p in _iter_tree_files():
        rel = os.path.relpath(p, REPO)
        if rel.startswith("ext/sqlite-amalgamation"):
            continue
        h.update(rel.encode())
        h.update(b"\0")
        try:
            with open(p, "rb") as f:
                h.update(f.read())
        except OSError:
            pass
        h.update(b"\0")
    return h.hexdigest()[:16]


def exec_hash():
    h = hashlib.sha256()
    d = os.path.join(VERIF, "exec")
    for f in sorted(os.listdir(d)):
        if f.endswith((".cpp", ".hpp", ".h")):
            h.update(f.encode())
            with open(os.path.join(d, f), "rb") as fh:
                h.update(fh.read())
    return h.hexdigest()[:16]


def library_sources():
    """The list of library translation units, as CMakeLists.txt names them."""
    txt = open(os.path.join(REPO, "CMakeLists.txt")).read()
    m = re.search(r"add_library\(\s*DjInterop(.*?)\)", txt, re.S)
    srcs = re.findall(r"(src/\S+\.cpp)", m.group(1)) if m else []
    if not srcs:
        for d, _, files in os.walk(os.path.join(REPO, "src")):
            for f in files:
                if f.endswith(".cpp"):
                    srcs.append(os.path.relpath(os.path.join(d, f), REPO))
    return sorted(set(srcs))


def _run(cmd, log):
    p = subprocess.run(cmd, stdout=subprocess.PIPE, stderr=subprocess.STDOUT)
    if p.returncode != 0:
        log.append((cmd, p.stdout.decode(errors="replace")))
    return p.returncode


def _gen_config(incdir):
    os.makedirs(os.path.join(incdir, "djinterop"), exist_ok=True)
    src = open(os.path.join(REPO, "include/djinterop/config.hpp.in")).read()
    src = src.replace("#cmakedefine DJINTEROP_STATIC", "#define DJINTEROP_STATIC")
    with open(os.path.join(incdir, "djinterop/config.hpp"), "w") as f:
        f.write(src)


def _prune(keep):
    if not os.path.isdir(CACHE):
        return
    entries = [e for e in os.listdir(CACHE) if os.path.isdir(os.path.join(CACHE, e))]
    entries.sort(key=lambda e: os.path.getmtime(os.path.join(CACHE, e)), reverse=True)
    now = time.time()
    for e in entries[3:]:
        # never a build touched in the last 90 minutes: another check (a parallel run against another tree) may be using it
        if e != keep and now - os.path.getmtime(os.path.join(CACHE, e)) > 5400:
            shutil.rmtree(os.path.join(CACHE, e), ignore_errors=True)


class BuildError(Exception):
    pass


def common_flags(cfg, incdir):
    c = CONFIGS[cfg]
    return [c["cxx"], "-std=gnu++17", "-w", "-pipe"] + c["flags"] + [
        "-I" + incdir, "-I" + os.path.join(REPO, "include"),
        "-I" + os.path.join(REPO, "src"),
        "-I" + os.path.join(REPO, "ext/sqlite_modern_cpp"),
        "-I" + os.path.join(REPO, "ext/date"),
        "-DDJINTEROP_SOURCE", "-D" + GUARD + "=1"]


def ensure(cfg, jobs=16, quiet=False):
    """Return the path of the executor binary for `cfg`, building it if needed."""
    cfg = os.environ.get("VERIF_FORCE_CFG") or cfg
    th = tree_hash()
    base = os.path.join(CACHE, th, cfg)
    incdir = os.path.join(CACHE, th, "include")
    lib = os.path.join(base, "libdjinterop.a")
    os.makedirs(base, exist_ok=True)
    os.utime(os.path.join(CACHE, th))
    lock = os.path.join(base, ".lock")
    import fcntl
    with open(lock, "w") as lf:
        fcntl.flock(lf, fcntl.LOCK_EX)
        log = []
        t0 = time.time()
        if not os.path.exists(lib):
            if not quiet:
                print(f"[build] library {cfg} for tree {th} ...", file=sys.stderr, flush=True)
            _gen_config(incdir)
            objs = []
            jobsl = []
            for s in library_sources():
                o = os.path.join(base, "obj", s.replace("/", "_") + ".o")
                os.makedirs(os.path.dirname(o), exist_ok=True)
                objs.append(o)
                jobsl.append(common_flags(cfg, incdir) + ["-c", os.path.join(REPO, s), "-o", o])
            with ThreadPoolExecutor(jobs) as ex:
                rcs = list(ex.map(lambda c: _run(c, log), jobsl))
            if any(rcs):
                raise BuildError("library build failed:\n" + "\n".join(
                    " ".join(c) + "\n" + o for c, o in log[:3]))
            tmp = lib + ".tmp"
            if os.path.exists(tmp):
                os.remove(tmp)
            if _run(["ar", "rcs", tmp] + objs, log):
                raise BuildError("ar failed: " + log[-1][1])
            os.rename(tmp, lib)
            if cfg != "cov":   # the coverage notes (.gcno) and counters (.gcda) live next to the objects
                shutil.rmtree(os.path.join(base, "obj"), ignore_errors=True)
            if not quiet:
                print(f"[build] library {cfg} done in {time.time()-t0:.0f}s", file=sys.stderr, flush=True)
        eh = exec_hash()
        exe = os.path.join(base, f"dj_exec_{eh}")
        if not os.path.exists(exe):
            t1 = time.time()
            for f in os.listdir(base):
                if f.startswith("dj_exec_"):
                    try:
                        os.remove(os.path.join(base, f))
                    except OSError:
                        pass
            objs = []
            jobsl = []
            for s in EXEC_SOURCES:
                o = os.path.join(base, "xobj_" + s + ".o")
                objs.append(o)
                jobsl.append(common_flags(cfg, incdir) + [
                    "-I" + os.path.join(VERIF, "exec"),
                    "-c", os.path.join(VERIF, "exec", s), "-o", o])
            with ThreadPoolExecutor(jobs) as ex:
                rcs = list(ex.map(lambda c: _run(c, log), jobsl))
            if any(rcs):
                raise BuildError("executor build failed:\n" + "\n".join(
                    " ".join(c) + "\n" + o for c, o in log[:3]))
            tmp = exe + ".tmp"
            cmd = [CONFIGS[cfg]["cxx"]] + CONFIGS[cfg]["link"] + ["-o", tmp] + objs + [
                lib, "-lsqlite3", "-lz", "-ldl", "-rdynamic"]
            if _run(cmd, log):
                raise BuildError("link failed: " + log[-1][1])
            os.rename(tmp, exe)
            for o in objs:
                os.remove(o)
            if not quiet:
                print(f"[build] executor {cfg} done in {time.time()-t1:.0f}s", file=sys.stderr, flush=True)
        _prune(th)
    return exe


if __name__ == "__main__":
    for c in sys.argv[1:] or ["plain", "san"]:
        print(ensure(c))
