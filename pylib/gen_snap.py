"""Track snapshot generator and the read-back normalisation N(schema, snapshot).

Snapshots use the executor's JSON shape: strings as hex, doubles as 16-hex-digit
bit patterns, durations in ms, time points in system_clock ticks (ns), cue/loop
lists with null for empty slots, grids as [[index, offset]], waveforms as hex of
6 bytes per entry (low value, low opacity, mid value, mid opacity, high value,
high opacity).

N is the identity except for what the property statement and its anchors name.
"""
import copy
import struct

from .framework import is_v2, schema_tuple

NS = 1000000000
STRING_FIELDS = ["album", "artist", "comment", "composer", "genre", "publisher", "title"]
INT_FIELDS = ["bitrate", "track_number", "year"]
ALL_FIELDS = ["album", "artist", "average_loudness", "beatgrid", "bitrate", "bpm", "comment", "composer",
              "duration", "file_bytes", "genre", "hot_cues", "key", "last_played_at", "loops", "main_cue",
              "publisher", "rating", "relative_path", "sample_count", "sample_rate", "title", "track_number",
              "waveform", "year"]
BLOB_FIELDS = {"average_loudness", "beatgrid", "hot_cues", "key", "loops", "main_cue", "sample_count",
               "sample_rate", "waveform"}


def dbits(x):
    return struct.pack(">d", float(x)).hex()


def undbits(h):
    return struct.unpack(">d", bytes.fromhex(h))[0]


def hx(s):
    return (s.encode() if isinstance(s, str) else bytes(s)).hex()


MINUS1 = dbits(-1.0)
ZEROS = (dbits(0.0), dbits(-0.0))


# ---------------------------------------------------------------- pools
_WORDS = ["Alpha", "Brave", "Città", "Dämmerung", "Écoute", "Fjörd", "Große", "日本語", "Ирис", "𝄞clef", "x", "Zulu",
          "multi word title", "with'quote", "semi;colon", "per%cent", "under_score", "tab\there", "new\nline",
          # numeric-looking text: must come back as the same text whatever the column affinity
          "007", "1e3", "0x10", "-0", " 12 ", "3.0", "NULL", "12abc"]


def rstring(rng, tag, used, allow_nul=False):
    """A string distinct from every string in `used` (so a transposed column binding cannot hide)."""
    for _ in range(50):
        r = rng.random()
        if r < 0.08:
            b = b""
        elif r < 0.16:
            b = bytes([rng.randrange(0x21, 0x7f)])
        elif r < 0.12 + 0.08:
            b = rng.choice(["007", "1e3", "0x10", "-0", " 12 ", "3.0", "NULL", "12abc", "1e400", "9223372036854775808"]).encode() + \
                (b"" if rng.random() < 0.5 else str(rng.randrange(10)).encode())
        elif r < 0.6:
            b = (rng.choice(_WORDS) + " " + tag + str(rng.randrange(1000))).encode()
        elif r < 0.7:
            n = rng.choice([255, 256, 300, 1000, 5000, 5000, 1000, 300, 256, 255, 65535, 65536, 70000] if rng.random() < 0.15
                           else [255, 256, 300, 1000, 5000])
            b = (tag.encode() + b"-" + bytes(rng.choice(b"abcdefghijklmnopqrstuvwxyz") for _ in range(n)))[:n]
        elif r < 0.8:
            b = "".join(rng.choice(["é", "日", "本", "ü", "𝄞", "a", " ", "ß", "Ω"]) for _ in range(rng.randrange(1, 30))).encode()
        elif r < 0.9:
            # arbitrary bytes without NUL (invalid UTF-8 included)
            b = bytes(rng.randrange(1, 256) for _ in range(rng.randrange(1, 24)))
        else:
            b = (tag + " " + str(rng.randrange(10 ** 6))).encode()
        if allow_nul and rng.random() < 0.03:
            b = b[: len(b) // 2] + b"\0" + b[len(b) // 2:]
        h = b.hex()
        if h not in used or (b == b"" and rng.random() < 0.5):
            used.add(h)
            return h
    h = (tag + str(rng.randrange(10 ** 9))).encode().hex()
    used.add(h)
    return h


def rint(rng, used, lo=-2 ** 31, hi=2 ** 31 - 1):
    for _ in range(50):
        r = rng.random()
        if r < 0.3:
            v = rng.choice([0, 1, -1, 2, 127, 128, 255, 256, 320, 1999, 2024, 65535, 65536, lo, hi, lo + 1, hi - 1])
        elif r < 0.8:
            v = rng.randrange(0, 4000)
        else:
            v = rng.randrange(lo, hi + 1)
        if lo <= v <= hi and v not in used:
            used.add(v)
            return v
    return rng.randrange(3000, 10 ** 6)


def rfinite(rng, used, lo=-1e15, hi=1e15, nonneg=False):
    for _ in range(50):
        r = rng.random()
        if r < 0.15:
            x = rng.choice([0.0, -0.0, 1.0, -1.0, 0.5, 5e-324, 1e-300, 1e15, -1e15, 2.0 ** 53, 44100.0, 120.0, 0.1])
        elif r < 0.5:
            x = float(rng.randrange(0, 10 ** 7))
        elif r < 0.8:
            x = rng.uniform(0, 1e7)
        elif r < 0.9:
            x = rng.uniform(-1e7, 1e7)
        else:
            x = rng.uniform(lo, hi)
        if nonneg:
            x = abs(x)
        if lo <= x <= hi:
            h = dbits(x)
            if h not in used:
                used.add(h)
                return h
    return dbits(rng.uniform(1, 1e6))


def rcolor(rng):
    if rng.random() < 0.3:
        return rng.choice([[0, 0, 0, 0], [255, 255, 255, 255], [255, 0, 0, 0], [0, 255, 0, 0], [0, 0, 255, 0],
                           [0, 0, 0, 255], [1, 2, 3, 4]])
    return [rng.randrange(256) for _ in range(4)]


def rlabel(rng, used, minlen=0, maxlen=255):
    r = rng.random()
    if r < 0.1:
        n = minlen
    elif r < 0.2:
        n = rng.choice([1, 2, 254, 255])
    elif r < 0.9:
        n = rng.randrange(max(minlen, 1), 24)
    else:
        n = rng.randrange(minlen, maxlen + 1)
    n = max(minlen, min(maxlen, n))
    for _ in range(20):
        if rng.random() < 0.7:
            b = bytes(rng.choice(b"abcdefghijklmnopqrstuvwxyz ABC0123") for _ in range(n))
        else:
            b = bytes(rng.randrange(1, 256) for _ in range(n))
        if b.hex() not in used or n == 0:
            used.add(b.hex())
            return b.hex()
    return b.hex()


def rhot_cue(rng, used_lab, used_d, minlabel=0, sentinel_ok=True, long_label=False):
    off = MINUS1 if (sentinel_ok and rng.random() < 0.04) else rfinite(rng, used_d, -1e9, 1e9)
    lab = rlabel(rng, used_lab, minlabel)
    if long_label:
        lab = bytes(rng.choice(b"abcdefgh") for _ in range(rng.choice([256, 257, 300, 1000]))).hex()
    return {"label": lab, "off": off, "color": rcolor(rng)}


def rloop(rng, used_lab, used_d, minlabel=0, sentinel_ok=True, long_label=False):
    st = MINUS1 if (sentinel_ok and rng.random() < 0.04) else rfinite(rng, used_d, -1e9, 1e9)
    lab = rlabel(rng, used_lab, minlabel)
    if long_label:
        lab = bytes(rng.choice(b"abcdefgh") for _ in range(rng.choice([256, 300]))).hex()
    return {"label": lab, "start": st, "end": rfinite(rng, used_d, -1e9, 1e9), "color": rcolor(rng)}


def rslots(rng, make, n_max=8):
    """0..8 slots; occupied positions at 0, 7 and random."""
    r = rng.random()
    if r < 0.12:
        return []
    n = rng.choice([1, 2, 3, 5, 8, 8, 8, rng.randrange(0, n_max + 1)])
    n = min(n, n_max)
    occ = set()
    mode = rng.random()
    if mode < 0.2:
        occ = set(range(n))
    elif mode < 0.4:
        occ = {0, n - 1}
    else:
        occ = {i for i in range(n) if rng.random() < 0.5}
    return [make() if i in occ else None for i in range(n)]


def rgrid(rng, sizes=(0, 2, 2, 3, 5, 64), big=False):
    n = rng.choice(list(sizes) + ([5000] if big else []))
    if n == 0:
        return []
    idx = rng.choice([-4, 0, -4, -100, 7])
    off = rng.choice([-50000.0, -123.456, 0.0, 1000.5, rng.uniform(-1e5, 1e5)])
    g = []
    for _ in range(n):
        g.append([idx, dbits(off)])
        idx += rng.choice([1, 4, 16, 100, rng.randrange(1, 500)])
        off += rng.choice([22050.0, 20000.125, rng.uniform(100, 1e6)])
    return g


def rwaveform(rng, n):
    mode = rng.random()
    if mode < 0.4:
        return bytes(rng.randrange(256) for _ in range(6 * n)).hex()
    if mode < 0.7:
        # opaque
        w = bytearray(rng.randrange(256) for _ in range(6 * n))
        for i in range(n):
            w[6 * i + 1] = w[6 * i + 3] = w[6 * i + 5] = 255
        return bytes(w).hex()
    return bytes(((i * 7 + k) & 255) for i in range(n) for k in range(6)).hex()


def rpath(rng, used, ext_required=True):
    for _ in range(50):
        r = rng.random()
        d = rng.choice(["", "../01 - Some Artist/", "music/sub dir/", "../../a/b/c/", "Ünïcode/日本/", "../Music/AC\\DC/", "dir.v2/",
                        "C:\\Users\\dj\\Music/", "100%41 #1?/", "it's \"quoted\";/"])
        stem = rng.choice(["track", "01 - Title", "x", "ünï", "a.b.c", "name with spaces", "AC\\DC - Back In Black ", ".hidden", "a.tar",
                           "what? #1 100%41 ", "semi;colon's \"q\" ", "back\\", "\\front"]) + str(rng.randrange(100000))
        ext = rng.choice([".mp3", ".flac", ".wav", ".MP3", ".ogg", ".aiff", ".m4a"])
        if not ext_required and r < 0.1:
            ext = ""   # a file without extension (possibly below a directory that has a dot: "dir.v2/name")
        p = (d + stem + ext).encode().hex()
        if p not in used:
            used.add(p)
            return p
    return p


def rate_pool(rng):
    return rng.choice([44100.0, 48000.0, 96000.0, 22050.0, 8000.0, 192000.0, 44100.5, 210.0, 420.0, 1.0, 209.5,
                       float(rng.randrange(1, 200000))])


def gen_snapshot(rng, schema, rich=False, big=False, hostile_sentinels=True, allow_nul=False, borderline=False):
    """A snapshot the library should accept (or cleanly reject)."""
    v2 = is_v2(schema)
    used_s, used_i, used_d, used_lab = set(), set(), set(), set()
    s = {}
    p_absent = 0.08 if rich else 0.3

    def present():
        return rng.random() >= p_absent

    s["relative_path"] = rpath(rng, used_s, ext_required=not borderline)
    for f in STRING_FIELDS:
        if present():
            s[f] = rstring(rng, f, used_s, allow_nul)
        elif rng.random() < 0.5:
            s[f] = None
    for f in INT_FIELDS:
        if present():
            s[f] = rint(rng, used_i)
    if present():
        s["rating"] = rng.choice([0, 1, 20, 40, 60, 80, 100, 99, 101, 255, -1, -2 ** 31, 2 ** 31 - 1, rng.randrange(0, 101)])
    if present():
        s["file_bytes"] = rng.choice([0, 1, 2 ** 31, 2 ** 32 + 5, 2 ** 53 + 1, 2 ** 63 - 1, rng.randrange(1, 10 ** 10)])
    if present():
        s["duration"] = rng.choice([0, 1, 999, 1000, 1001, 59999, 60000, 3599999, 366000, 10 ** 10 + 7,
                                    rng.randrange(0, 10 ** 7)])
    if present():
        secs = rng.choice([0, 1, 1500000000, 2 ** 31 - 1, 2 ** 31, 2 ** 32, 7258118400, rng.randrange(0, 7258118400)])
        sub = rng.choice([0, 0, 1, 999999999, 500000000, rng.randrange(0, NS)])
        s["last_played_at"] = secs * NS + sub
    if present():
        s["bpm"] = rfinite(rng, used_d, 0.0, 1000.0) if rng.random() < 0.8 else rfinite(rng, used_d, -1e9, 1e9)
    if present():
        s["key"] = rng.randrange(0, 24)
    if present():
        s["average_loudness"] = rfinite(rng, used_d, 0.0, 1.0) if rng.random() < 0.8 else rfinite(rng, used_d)
    if present():
        s["main_cue"] = rfinite(rng, used_d, -1e9, 1e9)
    has_rate = present()
    has_count = present()
    if has_rate:
        r = rate_pool(rng)
        if hostile_sentinels and rng.random() < 0.04:
            r = 0.0
        s["sample_rate"] = dbits(r)
    if has_count:
        c = rng.choice([1, 44100, 13230000, 2 ** 31, 2 ** 40, rng.randrange(1, 10 ** 9)])
        if hostile_sentinels and rng.random() < 0.04:
            c = 0
        s["sample_count"] = c
    minlabel = 0 if v2 else 1
    if present():
        s["hot_cues"] = rslots(rng, lambda: rhot_cue(rng, used_lab, used_d, minlabel, hostile_sentinels))
    if present():
        s["loops"] = rslots(rng, lambda: rloop(rng, used_lab, used_d, minlabel, hostile_sentinels))
    if present():
        s["beatgrid"] = rgrid(rng, big=big)
    if borderline:
        # values at the edge of what the formats hold: must survive or be rejected, never be mangled
        r = rng.random()
        if r < 0.04:
            s["beatgrid"] = [[rng.choice([-4, 0, 3]), dbits(rng.uniform(-1e4, 1e4))]]
        elif r < 0.08:
            s["hot_cues"] = [rhot_cue(rng, used_lab, used_d, 1, False) if rng.random() < 0.7 else None
                             for _ in range(rng.choice([9, 10, 12]))]
        elif r < 0.12:
            s["loops"] = [rloop(rng, used_lab, used_d, 1, False) if rng.random() < 0.7 else None
                          for _ in range(rng.choice([9, 10, 12]))]
        elif r < 0.16:
            s["hot_cues"] = [None, rhot_cue(rng, used_lab, used_d, 1, False, long_label=True)]
        elif r < 0.20:
            s["loops"] = [rloop(rng, used_lab, used_d, 1, False, long_label=True)]
        elif r < 0.23 and v2:
            s["hot_cues"] = [rhot_cue(rng, used_lab, used_d, 0, False), dict(rhot_cue(rng, used_lab, used_d, 0, False), label="")]
    # waveform only when rate and count are present (contract: extents are derived from them)
    if has_rate and has_count and present():
        # sizes include those that make the stored blob an exact multiple of the 16 KiB chunks the zlib container
        # is written in (30 + 6n bytes on 1.x: n = 8187, 16379), powers of two and their neighbours
        n = rng.choice([0, 1, 7, 100, 1024] + ([100000, 8187, 16379, 4096, 65535, 2725, 5456] if big else []))
        if n:
            s["waveform"] = rwaveform(rng, n)
    return s


def field_population(s):
    """Fields populated with a non-empty value."""
    n = 0
    blob = False
    for k, v in s.items():
        if v is None or v == [] or v == "":
            continue
        n += 1
        if k in BLOB_FIELDS:
            blob = True
    return n, blob


def is_nontrivial(s):
    n, blob = field_population(s)
    return n >= 6 and blob


# ---------------------------------------------------------------- normalisation
def _pad8(lst):
    lst = list(lst or [])
    while len(lst) < 8:
        lst.append(None)
    return lst


def absent_fields(schema):
    """Fields the schema has no column for."""
    if not is_v2(schema) and schema_tuple(schema) < (1, 15, 0):
        return {"file_bytes"}
    return set()


def normalise(schema, s):
    """Expected read-back of a written snapshot; values of None mean 'absent'.

    Returns (expected, loose) where loose is a set of fields that are only
    checked by weaker clauses (2.x waveform)."""
    v2 = is_v2(schema)
    e = {f: None for f in ALL_FIELDS}
    e["beatgrid"] = []
    e["waveform"] = ""
    loose = set()
    for f in STRING_FIELDS + ["relative_path"]:
        e[f] = s.get(f)
    for f in INT_FIELDS:
        e[f] = s.get(f)
    if s.get("rating") is not None:
        r = max(0, min(100, s["rating"]))
        e["rating"] = None if (v2 and r == 0) else r
    if s.get("file_bytes") is not None and "file_bytes" not in absent_fields(schema):
        e["file_bytes"] = s["file_bytes"]
    if s.get("duration") is not None:
        d = (s["duration"] // 1000) * 1000
        e["duration"] = None if (v2 and d == 0) else d
    if s.get("last_played_at") is not None:
        e["last_played_at"] = (s["last_played_at"] // NS) * NS
    e["bpm"] = s.get("bpm")
    e["key"] = s.get("key")
    for f in ("average_loudness", "main_cue", "sample_rate"):
        v = s.get(f)
        e[f] = None if (v is None or v in ZEROS) else v
    c = s.get("sample_count")
    e["sample_count"] = None if not c else c
    hc = []
    for x in _pad8(s.get("hot_cues")):
        hc.append(None if (x is None or x["off"] == MINUS1) else copy.deepcopy(x))
    e["hot_cues"] = hc
    lp = []
    for x in _pad8(s.get("loops")):
        if x is None or (not v2 and x["start"] == MINUS1):
            lp.append(None)
        else:
            lp.append(copy.deepcopy(x))
    e["loops"] = lp
    e["beatgrid"] = [list(m) for m in (s.get("beatgrid") or [])]
    w = s.get("waveform") or ""
    if v2:
        loose.add("waveform")
        e["waveform"] = w
    else:
        e["waveform"] = w
    return e, loose


def deq(a, b):
    """Equality of two doubles given as bit patterns, under == (so -0.0 == 0.0); NaN never generated."""
    if a is None or b is None:
        return a is b
    return a == b or undbits(a) == undbits(b)


def _cue_eq(a, b, dkeys):
    if a is None or b is None:
        return a is b
    for k in a:
        if k in dkeys:
            if not deq(a[k], b.get(k)):
                return False
        elif a[k] != b.get(k):
            return False
    return True


def field_equal(f, a, b):
    if f in ("average_loudness", "bpm", "main_cue", "sample_rate"):
        return deq(a, b)
    if f == "hot_cues":
        return len(a) == len(b) and all(_cue_eq(x, y, ("off",)) for x, y in zip(a, b))
    if f == "loops":
        return len(a) == len(b) and all(_cue_eq(x, y, ("start", "end")) for x, y in zip(a, b))
    if f == "beatgrid":
        return len(a) == len(b) and all(x[0] == y[0] and deq(x[1], y[1]) for x, y in zip(a, b))
    return a == b


def waveform_subsequence_ok(written_hex, read_hex):
    """2.x: every output point's value triple occurs in the input, in order."""
    w = bytes.fromhex(written_hex or "")
    r = bytes.fromhex(read_hex or "")
    wi = [(w[i], w[i + 2], w[i + 4]) for i in range(0, len(w) - 5, 6)]
    ri = [(r[i], r[i + 2], r[i + 4]) for i in range(0, len(r) - 5, 6)]
    if not ri:
        return True
    if not wi:
        return False
    p = 0
    for t in ri:
        while p < len(wi) and wi[p] != t:
            p += 1
        if p == len(wi):
            return False
        # the same input point may be sampled repeatedly
    return True


def diff_fields(schema, expected, loose, got, written):
    """Names of fields where the read-back differs from the expectation."""
    bad = []
    for f in ALL_FIELDS:
        if f in loose:
            if f == "waveform":
                if not waveform_subsequence_ok(written.get("waveform"), got.get("waveform")):
                    bad.append(f)
                else:
                    r = bytes.fromhex(got.get("waveform") or "")
                    if any(r[i] != 255 for i in range(1, len(r), 2)):
                        bad.append(f)
            continue
        if not field_equal(f, expected[f], got.get(f)):
            bad.append(f)
    return bad


def snapshots_equal(a, b):
    return [f for f in ALL_FIELDS if not field_equal(f, a.get(f), b.get(f))]
