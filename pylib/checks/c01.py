"""C01 - track data written through a snapshot reads back unchanged.

Three separately keyed clauses per write (create_track and update):
 (1) field equality   read == N(schema, written)
 (2) fixed point      read(write(read)) == read
 (3) no silent corruption: a write that returned is followed by a snapshot() that returns.
"""
from .. import gen_hist as GH, gen_snap as GS, runner
from ..framework import ALL_SCHEMAS, family, case_hash, is_v2

LEVEL = "exploration"
RULE = ("(schema, snapshot) pairs on all 18 schema versions; snapshots from per-field pools (every optional both ways, "
        "pairwise distinct strings/ints/doubles across same-typed fields, 0..8 cue/loop slots with occupied slots at "
        "0, 7 and random, the 0 / -1 sentinels, integer and time edges, grids of 0..5000 markers, waveforms of "
        "0..100000 entries); a snapshot is non-trivial when it populates >= 6 fields including a blob-backed one; "
        "distinct by canonical (schema, snapshot)")


def v1_bpm_policy(written, got):
    """Which documented 1.x tempo policy explains a bpm read-back that differs from the one written:
    the tempo is re-derived from the first two grid markers when a sample rate and >= 2 markers are given,
    otherwise the given bpm is stored truncated to an integer.  Anything else is 'unexplained'."""
    g = written.get("beatgrid") or []
    rate = written.get("sample_rate")
    derived = None
    if rate is not None and len(g) >= 2:
        o1, o2 = GS.undbits(g[0][1]), GS.undbits(g[1][1])
        if o1 != o2:
            derived = GS.undbits(rate) * 60 * (g[1][0] - g[0][0]) / (o2 - o1)
    gotv = None if got is None else GS.undbits(got)
    if derived is not None:
        return "derived-from-grid" if gotv == derived else "unexplained"
    b = written.get("bpm")
    if b is None:
        return "unexplained"
    return "truncated-to-integer" if gotv == float(int(GS.undbits(b))) else "unexplained"


def build_case(cid, schema, sA, sB, simple_first, bystander, prelude=(), between=()):
    # a bystander track: writing to t0 must never change it
    # (prelude: ops that shape the library first - id counters moved up, filler tracks - before anything is judged)
    ops = [{"op": "create_temporary", "schema": schema}] + list(prelude) + [{"op": "create_track", "as": "tb", "snap": bystander},
                                                                       {"op": "snapshot", "t": "tb"}]
    if simple_first:
        ops.append({"op": "create_track", "as": "t0", "snap": {"relative_path": GS.hx("seed/first.mp3")}})
        ops.append({"op": "update", "t": "t0", "snap": sA})
    else:
        ops.append({"op": "create_track", "as": "t0", "snap": sA})
    ops += [{"op": "snapshot", "t": "t0"}, {"op": "update_last", "t": "t0"}, {"op": "snapshot", "t": "t0"}]
    # columns only the low-level 2.x table API (or Engine DJ) writes - flags, play state, source ids - set between the writes:
    # a snapshot written afterwards must still read back as written
    ops += list(between)
    w2 = len(ops)
    ops += [{"op": "update", "t": "t0", "snap": sB},
            {"op": "snapshot", "t": "t0"}, {"op": "update_last", "t": "t0"}, {"op": "snapshot", "t": "t0"},
            {"op": "snapshot", "t": "tb"}]
    return {"id": cid, "schema": schema, "ops": ops, "_sA": sA, "_sB": sB, "_simple": simple_first, "_off": len(prelude), "_w2": w2,
            "_between": len(between)}


def judge_case(ctx, res):
    case = res.case
    schema = case["schema"]
    fam = family(schema)
    ops = case["ops"]
    ctx.bump_in("cases_by_schema", schema)
    wit = {"schema": schema, "ops": ops}
    if res.crash:
        c = res.crash
        opn = c.get("op") or "?"
        if c["op_index"] < 0:
            ctx.fail_harness("executor died outside any op: %s" % c["kind"])
            return
        ctx.violation(f"op-did-not-complete {fam} {opn} {c['kind']} at={c['site']}",
                      f"{opn} on {schema} did not complete: {c['kind']} in {c['site']}",
                      dict(wit, crash=c["kind"]))
        return
    evs = res.events
    # locate the write steps
    i = 1
    writes = []  # (write_index, written_snapshot, opname)
    off = case.get("_off", 0)
    if off and any("exc" in e for e in evs[1:1 + off]):
        ctx.fail_harness("the prelude of a C01 case failed: %s" % [e["exc"]["type"] for e in evs[1:1 + off] if "exc" in e][:1])
        return
    if off:
        ctx.bump("cases_with_shaped_library")
    if case["_simple"]:
        writes.append((off + 4, case["_sA"], "update"))
        base = off + 5
    else:
        writes.append((off + 3, case["_sA"], "create_track"))
        base = off + 4
    writes.append((case.get("_w2", base + 3), case["_sB"], "update"))
    if case.get("_between"):
        w2 = case["_w2"]
        bad = [e["exc"]["type"] for e in evs[w2 - case["_between"]:w2] if "exc" in e]
        if bad and len(evs) >= w2:
            # (the track may not exist when the first write was rejected)
            ctx.bump_in("low_level_column_writes_failed", bad[0])
        else:
            ctx.bump("cases_with_low_level_columns_set_between_writes")
    # the bystander before and after everything
    b0 = off + 2
    if len(evs) == len(ops) and "ret" in evs[b0] and "ret" in evs[-1]:
        ctx.bump("bystander_checks")
        if isinstance(evs[off + 1].get("ret"), int):
            ctx.extra["max_track_id_seen"] = max(ctx.extra.get("max_track_id_seen", 0), evs[off + 1]["ret"])
        for f in GS.snapshots_equal(evs[b0]["ret"], evs[-1]["ret"]):
            ctx.violation(f"other-track-changed {fam} {f}", f"{schema}: create/update of one track changed {f} of another track", wit)
    elif len(evs) == len(ops) and "ret" in evs[b0] and "exc" in evs[-1]:
        ctx.violation(f"other-track-changed {fam} snapshot-throws", f"{schema}: snapshot() of a bystander track throws after writes to another track", wit)
    for wi, written, opname in writes:
        ev = evs[wi]
        ctx.count()
        if GS.is_nontrivial(written):
            ctx.nontriv({"schema": schema, "s": written})
        ctx.bump_in("writes_by_op", opname)
        if "exc" in ev:
            x = ev["exc"]
            if not x.get("std", True):
                ctx.violation(f"non-std-exception {fam} {opname}", f"{opname} threw a non-std exception", wit)
            elif "harness_error" in x.get("is", []):
                # the handle does not exist because create_track was rejected
                ctx.bump("skipped_after_rejected_create")
            else:
                ctx.bump_in("rejected_writes", x["type"])
                ctx.bump_in("rejection_messages", bytes.fromhex(x.get("what", "")).decode(errors="replace")[:70])
            if opname == "create_track":
                return
            continue
        ctx.bump("accepted_writes")
        r1 = evs[wi + 1]
        if "exc" in r1:
            what = bytes.fromhex(r1["exc"].get("what", "")).decode(errors="replace")
            ctx.violation(f"silent-corruption {fam} {opname} snapshot-throws {r1['exc']['type']}",
                          f"{schema}: {opname} accepted a snapshot but the following snapshot() throws "
                          f"{r1['exc']['type']}: {what}", wit)
            continue
        got = r1["ret"]
        exp, loose = GS.normalise(schema, written)
        for f in GS.diff_fields(schema, exp, loose, got, written):
            site = f
            if f == "bpm" and fam == "v1":
                site = "bpm(" + v1_bpm_policy(written, got.get("bpm")) + ")"
            ctx.violation(f"snapshot-field-mismatch {fam} {opname} {site}",
                          f"{schema}: after {opname}, snapshot().{f} = {str(got.get(f))[:120]} but "
                          f"{str(written.get(f))[:120]} was written (expected {str(exp.get(f))[:120]})", wit)
        if fam == "v2" and written.get("waveform") and isinstance(got.get("waveform"), str):
            # 2.x keeps a 1024-point overview: point i is the entry at (2i+1)/2048 of what was written (the sampling the
            # stored-content check C02 pins); the read-back waveform must be exactly those entries' values
            from .c02 import overview_expected
            want = overview_expected(written["waveform"], exp.get("sample_count"), exp.get("sample_rate"))
            gw = bytes.fromhex(got["waveform"])
            if want is not None and len(gw) == 6 * 1024:
                have = [(gw[6 * i], gw[6 * i + 2], gw[6 * i + 4]) for i in range(1024)]
                ctx.bump("overview_sampling_checks")
                if have != want:
                    j = next(i for i in range(1024) if have[i] != want[i])
                    ctx.violation(f"snapshot-field-mismatch {fam} {opname} waveform(overview-sampling)",
                                  f"{schema}: after {opname} of a {len(written['waveform']) // 12}-entry waveform, overview point {j} reads "
                                  f"{have[j]} but the entry at (2*{j}+1)/2048 of the input is {want[j]}", wit)
        for f in GS.ALL_FIELDS:
            v = got.get(f)
            if v not in (None, [], ""):
                ctx.bump_in("fields_read_back_populated", f)
        rw = evs[wi + 2]
        if "exc" in rw:
            what = bytes.fromhex(rw["exc"].get("what", "")).decode(errors="replace")
            ctx.violation(f"fixed-point {fam} rewrite-rejected {rw['exc']['type']}",
                          f"{schema}: writing the read-back snapshot to the same track is rejected with "
                          f"{rw['exc']['type']}: {what}", wit)
            continue
        r2 = evs[wi + 3]
        if "exc" in r2:
            ctx.violation(f"silent-corruption {fam} rewrite snapshot-throws {r2['exc']['type']}",
                          f"{schema}: snapshot() throws after re-writing the read-back snapshot", wit)
            continue
        ctx.bump("fixed_point_checks")
        for f in GS.snapshots_equal(got, r2["ret"]):
            ctx.violation(f"fixed-point {fam} {f}",
                          f"{schema}: re-writing the read-back snapshot changes {f}: {str(got.get(f))[:100]} -> "
                          f"{str(r2['ret'].get(f))[:100]}", wit)


def strip(case):
    return {k: v for k, v in case.items()}


def run(ctx):
    per = 150 if ctx.tier == "quick" else 1500
    cases = []
    n = 0
    for schema in ALL_SCHEMAS:
        for k in range(per):
            rich = k % 3 != 0
            big = (ctx.tier != "quick" and k % 25 == 0) or (k in (7, 57, 107))
            sA = GS.gen_snapshot(ctx.rng, schema, rich=rich, big=big, allow_nul=True, borderline=True)
            sB = GS.gen_snapshot(ctx.rng, schema, rich=(k % 2 == 0), borderline=True)
            by = GS.gen_snapshot(ctx.rng, schema, rich=True, hostile_sentinels=False)
            # one case in eight works in a library shaped like a long-lived one: track ids around 2^31 / 2^32 / 2^53, and
            # a dozen (thorough: up to 150) other tracks already present
            prelude = []
            if k % 8 == 5:
                prelude += GH.first_id_prelude(schema, GH.FIRST_IDS[(k // 8) % len(GH.FIRST_IDS)])
            if k % 8 in (5, 6):
                nfill = 12 if ctx.tier == "quick" else ctx.rng.choice([12, 40, 150])
                prelude += [{"op": "create_track", "as": "f%d" % j, "snap": {"relative_path": GS.hx("filler/%03d.mp3" % j)}} for j in range(nfill)]
            between = []
            if is_v2(schema) and k % 8 in (2, 5):
                flags = {"is_beat_grid_locked": True, "is_played": True, "is_available": False, "explicit_lyrics": True,
                         "is_metadata_imported": True, "played_indicator": 7, "third_party_source_id": 3, "streaming_flags": 5,
                         "pdb_import_key": 9, "uri": GS.hx("streaming://x/1"), "streaming_source": GS.hx("src")}
                names = ctx.rng.sample(sorted(flags), ctx.rng.randrange(1, 5))
                if k % 16 == 2:
                    names = ["is_beat_grid_locked"] + [x for x in names if x != "is_beat_grid_locked"]
                between = [{"op": "trk_set_col", "id": "$tid", "col": c, "value": flags[c]} for c in names]
            c = build_case("c%d" % n, schema, sA, sB, simple_first=(k % 4 == 3), bystander=by, prelude=prelude, between=between)
            if k % 8 == 7 or k in (1, 9):
                # the library opened by a relative directory name, and track files whose path begins with that very name
                # (an exporter handing over "<library folder>/Music/x.mp3", or a music folder that happens to be called
                # like the library folder): the path is a value like any other and must read back as written
                dname = "c%d" % n
                c["ops"][0] = {"op": "create", "schema": schema, "dir": "@R/" + dname}
                c["no_disk"] = True
                shapes = [dname + "/", dname + "/" + dname + "/", "./" + dname + "/", dname, "/" + dname + "/", "../" + dname + "/"]
                for j, sn in enumerate((sA, sB)):
                    if sn.get("relative_path") is not None:
                        tail = bytes.fromhex(sn["relative_path"]).lstrip(b"/") or b"x.mp3"
                        sn["relative_path"] = (shapes[(k // 8 + j) % len(shapes)].encode() + tail).hex()
                ctx.bump("cases_whose_track_path_begins_with_the_library_directory")
            if between:
                c["ops"][0]["op"] = "lib_create_temporary"
                for o in c["ops"]:
                    if o.get("as") == "t0":
                        o["bind"] = "tid"
            cases.append(c)
            n += 1
    for c in cases[:2]:
        ctx.sample({"schema": c["schema"], "written": {k: (v if len(str(v)) < 200 else str(v)[:200]) for k, v in c["_sA"].items()}})
    ctx.assumptions += [
        "normalisation: cue/loop lists padded to 8; duration and last_played_at floored to whole seconds; rating clamped "
        "to 0..100; values equal to a schema's 'absent' sentinel read back absent (0 for main cue, loudness, sample rate, "
        "sample count; rating 0 and duration 0 on 2.x; cue offset -1; 1.x loop start -1); file_bytes has no column "
        "before 1.15.0; 2.x stores the waveform as a 1024-point opaque overview (only 'every output point occurs in the "
        "input in order' plus the fixed point are demanded there)",
        "doubles compare with == ; strings byte-exact; any std::exception from a write is an acceptable rejection",
        "plain -O2 build; a death inside an operation is reported as op-did-not-complete"]
    runner.run_cases(cases, cfg="plain", on_result=lambda r: judge_case(ctx, r))
    seen = set(ctx.extra.get("cases_by_schema", {}))
    if seen != set(ALL_SCHEMAS):
        ctx.fail_harness("schema versions not covered: %s" % sorted(set(ALL_SCHEMAS) - seen))
    if ctx.extra.get("fixed_point_checks", 0) < 10:
        ctx.fail_harness("too few fixed-point checks were reached")


def replay(ctx, doc):
    r = doc["replay"]
    case = {"id": "replay", "schema": r["schema"], "ops": r["ops"]}
    # recover the written snapshots from the ops
    ops = r["ops"]
    off = next(i for i, o in enumerate(ops) if o.get("as") == "tb") - 1
    simple = ops[off + 3]["op"] == "create_track" and ops[off + 4]["op"] == "update"
    case["_simple"] = simple
    case["_off"] = off
    case["_sA"] = ops[off + 4]["snap"] if simple else ops[off + 3]["snap"]
    w2 = next(i for i, o in enumerate(ops) if o["op"] == "update" and i > off + 4)
    case["_sB"] = ops[w2]["snap"]
    case["_w2"] = w2
    case["_between"] = sum(1 for o in ops[:w2] if o["op"] == "trk_set_col")
    res = runner.run_one(case, cfg="plain")
    judge_case(ctx, res)
