"""C14 - a failed mutating call leaves no partial update.

Fault enumeration at the SQLite boundary: for every mutating call of a history,
the interposed sqlite3_step makes statement k = 1, 2, ... of that call fail
(the statement is not executed, the error code is returned), each time from the
same state; after each failure the call must have thrown, the connection must
be outside a transaction, and the full public observation must equal the one
taken before the call."""
from .. import gen_hist as GH, runner
from ..framework import ALL_SCHEMAS, family
from .c10 import diff_paths, generic_site

LEVEL = "fault_enumeration"
RULE = ("every mutating public call (create_track, update, the 24 single-field setters and per-slot setters, crate "
        "create/rename/re-parent/remove, add/remove/clear of crate tracks, remove_track) of mixed histories on all 18 "
        "versions, with each of its SQL statements in turn (reads, writes, BEGIN, COMMIT) made to fail; non-trivial = "
        "the call issues >= 2 statements, so that a position k >= 2 exists; distinct by (schema, call, k)")

MUTATING = {"create_track", "update", "set", "set_at", "remove_track", "create_root_crate", "create_root_crate_after",
            "create_sub_crate", "create_sub_crate_after", "set_name", "set_parent", "remove_crate", "add_track", "add_track_via_id",
            "remove_track_from", "clear_tracks"}
CODES = {"quick": [13, 10, 5, 19], "thorough": [13, 10, 5, 19, 7, 14, 8]}   # FULL IOERR BUSY CONSTRAINT (NOMEM CANTOPEN READONLY)


def opdesc(op):
    o = op["op"]
    if o == "set":
        return "set:" + op["field"]
    if o == "set_at":
        return "set_at:" + op["field"]
    return o


def make_case(cid, rng, schema, n_ops, code, shaped=None, norow=False):
    ops, metas = GH.gen_library_history(rng, schema, n_ops)
    dropped = False
    full = [{"op": "create_temporary", "schema": schema}]
    if shaped is not None:
        full += GH.first_id_prelude(schema, GH.FIRST_IDS[shaped % len(GH.FIRST_IDS)])
    for op in ops:
        if op["op"] in MUTATING:
            # every third call is failed where its statements are compiled (sqlite3_prepare_v2) rather than where they are stepped
            full.append({"op": "fault_sweep", "inner": op, "code": code, "max_k": 600, "keep_going": True, "stored": True,
                         "at_prepare": len(full) % 3 == 2, "unwinding": len(full) % 4 == 1})
            if norow and op["op"] == "create_track" and not dropped:
                # 1.x: the first track as Engine leaves one it has imported but not analysed - no performance-data row at all
                full.append({"op": "raw_exec", "sql": "DELETE FROM PerformanceData WHERE id = (SELECT MIN(id) FROM Track)"})
                dropped = True
        else:
            full.append(op)
    # an update of a populated track from a different rich snapshot
    from .. import gen_snap as GS
    full.append({"op": "fault_sweep", "inner": {"op": "update", "t": "t0", "snap": GS.gen_snapshot(rng, schema, rich=True, hostile_sentinels=False)},
                 "code": code, "max_k": 600, "keep_going": True, "stored": True})
    return {"id": cid, "schema": schema, "ops": full, "_code": code}


def make_table_case(cid, rng, schema, code):
    """Mutating calls of the public 2.x table API (track_table, playlist_table, playlist_entity_table), each swept."""
    from . import c18
    from .. import forest as FO
    u = {"i": set(), "d": set(), "s": set(), "t": set()}
    full = [{"op": "lib_create_temporary", "schema": schema}, {"op": "info_get", "bind": "uuid", "bind_field": "uuid", "bind_hex": True}]

    def sweep(op):
        outer = {"op": "fault_sweep", "inner": op, "code": code, "max_k": 600, "keep_going": True, "tables": True, "stored": True,
                 "at_prepare": len(full) % 3 == 2,
                 "observe": {"snapshots": False}}
        if "bind" in op:
            # the id comes from the fault-free run at the end of the sweep
            outer["bind"] = op.pop("bind")
            outer["bind_field"] = "/final/ret"
        full.append(outer)

    nt = npl = 0
    lists = []      # (bind name, parent bind or 0)
    for _ in range(2):
        nt += 1
        sweep({"op": "trk_add", "row": c18.gen_row(rng, u, 0.2), "bind": "t%d" % nt})
    for _ in range(3):
        npl += 1
        parent = 0 if not lists or rng.random() < 0.5 else "$" + rng.choice(lists)[0]
        sweep({"op": "pl_add", "bind": "p%d" % npl,
               "row": {"title": FO.hx("List %d" % npl), "parent_list_id": parent, "is_persisted": True, "next_list_id": 0,
                       "last_edit_time": 1600000000 * 10 ** 9, "is_explicitly_exported": False}})
        lists.append(("p%d" % npl, parent))
    for _ in range(14):
        r = rng.random()
        if r < 0.12:
            nt += 1
            sweep({"op": "trk_add", "row": c18.gen_row(rng, u, 0.2), "bind": "t%d" % nt})
        elif r < 0.3:
            col = rng.choice(c18.ALL_COLS)
            sweep({"op": "trk_set_col", "id": "$t%d" % rng.randrange(1, nt + 1), "col": col, "value": c18.col_value(rng, col, u, 0.2)})
        elif r < 0.4:
            row = c18.gen_row(rng, u, 0.2)
            row["id"] = "$t%d" % rng.randrange(1, nt + 1)
            sweep({"op": "trk_update", "row": row})
        elif r < 0.5:
            npl += 1
            parent = 0 if rng.random() < 0.4 else "$" + rng.choice(lists)[0]
            sweep({"op": "pl_add", "bind": "p%d" % npl,
                   "row": {"title": FO.hx("List %d" % npl), "parent_list_id": parent, "is_persisted": True, "next_list_id": 0,
                           "last_edit_time": 1600000000 * 10 ** 9, "is_explicitly_exported": False}})
            lists.append(("p%d" % npl, parent))
        elif r < 0.62:
            name, parent = rng.choice(lists)
            newparent = rng.choice([0] + ["$" + l[0] for l in lists if l[0] != name])
            sweep({"op": "pl_update", "row": {"id": "$" + name, "title": FO.hx("Moved %s %d" % (name, rng.randrange(100))),
                                             "parent_list_id": newparent, "is_persisted": True, "next_list_id": 0,
                                             "last_edit_time": 1700000000 * 10 ** 9, "is_explicitly_exported": True}})
        elif r < 0.8:
            sweep({"op": "pe_add_back", "row": {"list_id": "$" + rng.choice(lists)[0], "track_id": "$t%d" % rng.randrange(1, nt + 1),
                                               "database_uuid": "$uuid", "next_entity_id": 0, "membership_reference": 0}})
        elif r < 0.88:
            sweep({"op": "pe_remove", "list": "$" + rng.choice(lists)[0], "track": "$t%d" % rng.randrange(1, nt + 1)})
        elif r < 0.92:
            sweep({"op": "pe_clear", "list": "$" + rng.choice(lists)[0]})
        elif r < 0.96:
            sweep({"op": "trk_remove", "id": "$t%d" % rng.randrange(1, nt + 1)})
        else:
            sweep({"op": "pl_remove", "id": "$" + rng.choice(lists)[0]})
    return {"id": cid, "schema": schema, "ops": full, "_code": code}


def judge_case(ctx, res):
    case = res.case
    schema = case["schema"]
    fam = family(schema)
    ops = case["ops"]
    ctx.bump_in("cases_by_schema", schema)
    wit = {"schema": schema, "code": case["_code"], "ops": ops}
    for k, ev in enumerate(res.events):
        op = ops[k]
        if op["op"] != "fault_sweep":
            continue
        od = opdesc(op["inner"])
        if "exc" in ev:
            if "harness_error" in ev["exc"].get("is", []):
                ctx.bump("sweeps_skipped_missing_handle")
                continue
            what = bytes.fromhex(ev["exc"].get("what", "")).decode(errors="replace")[:100]
            ctx.violation(f"library-unusable {fam} {od}", f"{schema}: observing the library around {od} throws {ev['exc']['type']}: {what}", wit)
            return
        r = ev["ret"]
        nst = r["statements"]
        ctx.bump_in("sweeps", od)
        mx = ctx.extra.setdefault("max_statements_per_call", {})
        mx[od] = max(mx.get(od, 0), nst)
        for run in r["runs"]:
            ctx.count()
            ctx.bump("faults_fired")
            ctx.bump_in("faults_by_call", od)
            if op.get("unwinding"):
                ctx.bump("faults_in_calls_made_while_an_exception_unwinds")
            sq = (run.get("sql") or "").strip()
            ctx.bump_in("faults_by_site", "prepare" if sq.startswith("[prepare]") else "step")
            sqlk = sq.replace("[prepare] ", "").split(" ")[0].upper()
            ctx.bump_in("faulted_statement_kinds", sqlk)
            if nst >= 2:
                ctx.nontriv("%s|%s|%d" % (schema, od, run["k"]))
        for run in r["runs"]:
            if "stored_changed" in run:
                ctx.bump("failed_calls_that_changed_stored_rows")
                if run["same"] and run["threw"]:
                    tabs = sorted(set(run["stored_changed"]))
                    ctx.violation(f"stored-rows-changed {fam} {od} {' '.join(t.split('.', 1)[1] for t in tabs)[:80]}",
                                  f"{schema}: statement {run['k']} of {od} failed ({(run.get('sql') or '')[:90]}), the call threw and every "
                                  f"accessor answers as before, but the stored rows of {tabs} are no longer what they were", wit)
            elif op.get("stored"):
                ctx.bump("failed_calls_whose_stored_rows_were_compared")
        bad_runs = [run for run in r["runs"] if not run["threw"] or run.get("txn") or not run["same"]]
        for run in bad_runs:
            sql = (run.get("sql") or "")[:90]
            if run.get("nonstd"):
                ctx.violation(f"non-std-exception {fam} {od}", f"{od} threw a non-std exception under a failing statement", wit)
            if not run["threw"]:
                ctx.violation(f"fault-swallowed {fam} {od}",
                              f"{schema}: statement {run['k']} of {od} failed ({sql}) but the call returned normally", wit)
            if run.get("txn"):
                ctx.violation(f"transaction-left-open {fam} {od}",
                              f"{schema}: after statement {run['k']} of {od} failed ({sql}) the connection is still inside a transaction", wit)
            if not run["same"]:
                paths = diff_paths(run.get("before"), run.get("after"), limit=4)
                sites = sorted({generic_site(p) for p in paths})
                ctx.violation(f"partial-update {fam} {od}",
                              f"{schema}: statement {run['k']} of {od} failed ({sql}), the call "
                              f"{'threw' if run['threw'] else 'returned'}, and the observable state changed at {paths[:3]}",
                              {"schema": schema, "code": case["_code"], "ops": ops[:k + 1], "sites": sites})
        if r["stopped"] == "violation":
            return  # too many violations inside one call: later steps would run on a corrupted state
        if r["stopped"] == "max_k":
            ctx.fail_harness("fault sweep of %s did not reach a fault-free run within max_k" % od)
            return
        fin = r.get("final", {})
        if fin.get("nonstd"):
            ctx.violation(f"non-std-exception {fam} {od}", f"{od} threw a non-std exception", wit)
    if res.crash:
        c = res.crash
        if c["op_index"] < 0:
            ctx.fail_harness("executor died outside any op: %s" % c["kind"])
            return
        op = ops[c["op_index"]] if c["op_index"] < len(ops) else {"op": "?"}
        od = opdesc(op["inner"]) if op["op"] == "fault_sweep" else op["op"]
        ctx.violation(f"op-did-not-complete {fam} {od} {c['kind']} at={c['site']}",
                      f"{schema}: {od} under fault injection did not complete: {c['kind']} in {c['site']}", dict(wit, crash=c["kind"]))


def run(ctx):
    per = 16 if ctx.tier == "quick" else 150
    codes = CODES[ctx.tier]
    cases = []
    n = 0
    for schema in ALL_SCHEMAS:
        for k in range(per):
            norow = (k % 4 == 2) and not schema.startswith("2.")
            if norow:
                ctx.bump("histories_with_a_track_without_performance_row")
            cases.append(make_case("f%d" % n, ctx.rng, schema, 22 + (k % 3) * 6, codes[k % len(codes)], shaped=(k // 3 if k % 3 == 1 else None), norow=norow))
            n += 1
    from ..framework import V2_SCHEMAS
    pert = 6 if ctx.tier == "quick" else 100
    for schema in V2_SCHEMAS:
        for k in range(pert):
            cases.append(make_table_case("tb%d" % n, ctx.rng, schema, codes[k % len(codes)]))
            n += 1
    # long operations: removal of a crate with 70 (thorough 200) track-holding sub-crates, and of a track that is in all of them,
    # failed at every fifth statement - an operation that commits part-way shows here, not in histories of a handful of crates
    from .. import forest as FO
    nsub = 70 if ctx.tier == "quick" else 200
    for schema in ALL_SCHEMAS:
        ops = [{"op": "create_temporary", "schema": schema}, {"op": "set_budget", "vdbe": 4 * 10 ** 9}]
        for t in range(3):
            ops.append({"op": "create_track", "as": "t%d" % t, "snap": {"relative_path": FO.hx("long/%d.mp3" % t)}})
        ops.append({"op": "create_root_crate", "name": FO.hx("keep"), "as": "ck"})
        ops.append({"op": "add_track", "c": "ck", "t": "t0"})
        ops.append({"op": "create_root_crate", "name": FO.hx("doomed"), "as": "cr"})
        for j in range(nsub):
            ops.append({"op": "create_sub_crate", "c": "cr" if j % 5 else ("s%d" % (j - 1) if j else "cr"), "name": FO.hx("sub %03d" % j), "as": "s%d" % j})
            ops.append({"op": "add_track", "c": "s%d" % j, "t": "t%d" % (j % 3)})
            ops.append({"op": "add_track", "c": "s%d" % j, "t": "t0"})
        code = codes[n % len(codes)]
        ops.append({"op": "fault_sweep", "inner": {"op": "remove_track", "t": "t1"}, "code": code, "max_k": 4000, "k_stride": 5, "keep_going": True, "stored": True,
                    "observe": {"snapshots": False, "max_names": 4}})
        ops.append({"op": "fault_sweep", "inner": {"op": "remove_crate", "c": "cr"}, "code": code, "max_k": 8000, "k_stride": 5, "keep_going": True, "stored": True,
                    "observe": {"snapshots": False, "max_names": 4}})
        cases.append({"id": "long%d" % n, "schema": schema, "ops": ops, "_code": code})
        n += 1
    # long lists: a crate holding 300 (thorough 1500) tracks, then clear / single removal / re-adding / removal of the crate, failed at
    # every statement - an operation that treats long lists differently (batches, a fast path) shows here
    nlong = 300 if ctx.tier == "quick" else 1500
    for schema in ALL_SCHEMAS:
        obs = {"snapshots": False, "max_names": 4}
        ops = [{"op": "create_temporary", "schema": schema}, {"op": "set_budget", "vdbe": 4 * 10 ** 9},
               {"op": "create_root_crate", "name": FO.hx("long list"), "as": "cL"}, {"op": "create_root_crate", "name": FO.hx("other"), "as": "cO"},
               {"op": "bulk_fill", "c": "cL", "n": nlong, "prefix": FO.hx("ll"), "keep": [0, 7, nlong - 1], "as": "bk"},
               {"op": "add_track", "c": "cO", "t": "bk_7"}]
        for inner in ({"op": "remove_track_from", "c": "cL", "t": "bk_7"}, {"op": "clear_tracks", "c": "cL"},
                      {"op": "add_track", "c": "cL", "t": "bk_0"}, {"op": "remove_crate", "c": "cL"}):
            ops.append({"op": "fault_sweep", "inner": inner, "code": codes[len(cases) % len(codes)], "max_k": 4000, "keep_going": True, "stored": True,
                        "observe": obs})
        cases.append({"id": "ll%d" % n, "schema": schema, "ops": ops, "_code": 13, "no_disk": True})
        ctx.bump("long_list_fault_cases")
        n += 1
    c0 = cases[0]
    ctx.sample({"schema": c0["schema"], "calls": [opdesc(o["inner"]) for o in c0["ops"] if o["op"] == "fault_sweep"][:14]})
    ctx.assumptions += ["an injected fault is returned instead of executing the statement, so the failed statement itself has no effect "
                        "by construction; ROLLBACK statements are never failed",
                        "the verdict is equality of full public observations (API level), the autocommit flag, that the call threw, and - as a separately "
                        "keyed clause - that the content of every stored table (SELECT * digests) is what it was",
                        "error codes cycle through SQLITE_FULL, IOERR, BUSY, CONSTRAINT (thorough adds NOMEM, CANTOPEN, READONLY), one code per history"]
    runner.run_cases(cases, cfg="plain", on_result=lambda r: judge_case(ctx, r), stall_timeout=120)
    seen = set(ctx.extra.get("cases_by_schema", {}))
    if seen != set(ALL_SCHEMAS):
        ctx.fail_harness("schema versions not covered: %s" % sorted(set(ALL_SCHEMAS) - seen))
    fired = ctx.extra.get("faults_by_call", {})
    need = ["create_track", "update", "remove_track", "create_root_crate", "create_sub_crate", "set_name", "set_parent",
            "remove_crate", "add_track", "remove_track_from", "clear_tracks"] + ["set:" + f for f in GH.SETTER_FIELDS]
    need += ["trk_add", "trk_update", "trk_remove", "pl_add", "pl_update", "pl_remove", "pe_add_back", "pe_remove"]
    missing = [x for x in need if not fired.get(x)]
    if missing:
        ctx.fail_harness("no fault was ever fired inside: %s" % missing)


def replay(ctx, doc):
    r = doc["replay"]
    case = {"id": "replay", "schema": r["schema"], "ops": r["ops"], "_code": r.get("code", 13)}
    judge_case(ctx, runner.run_one(case, cfg="plain", stall_timeout=120))
