"""C14 - a failed mutating call leaves no partial update.

Fault enumeration at the SQLite boundary: for every mutating call of a history,
the interposed sqlite3_step makes statement k = 1, 2, ... of that call fail
(the statement is not executed, the error code is returned), each time from the
same state; after each failure the call must have thrown, the connection must
be outside a transaction, and the full public observation must equal the one
taken before the call."""
from .. import gen_hist as GH, runner
from ..framework import ALL_SCHEMAS, family
from .c10 import diff_paths, generic_site

LEVEL = "fault_enumeration"
RULE = ("every mutating public call (create_track, update, the 24 single-field setters and per-slot setters, crate "
        "create/rename/re-parent/remove, add/remove/clear of crate tracks, remove_track) of mixed histories on all 18 "
        "versions, with each of its SQL statements in turn (reads, writes, BEGIN, COMMIT) made to fail; non-trivial = "
        "the call issues >= 2 statements, so that a position k >= 2 exists; distinct by (schema, call, k)")

MUTATING = {"create_track", "update", "set", "set_at", "remove_track", "create_root_crate", "create_root_crate_after",
            "create_sub_crate", "create_sub_crate_after", "set_name", "set_parent", "remove_crate", "add_track",
            "remove_track_from", "clear_tracks"}
CODES = {"quick": [13], "thorough": [13, 10, 5, 19]}


def opdesc(op):
    o = op["op"]
    if o == "set":
        return "set:" + op["field"]
    if o == "set_at":
        return "set_at:" + op["field"]
    return o


def make_case(cid, rng, schema, n_ops, code):
    ops, metas = GH.gen_library_history(rng, schema, n_ops)
    full = [{"op": "create_temporary", "schema": schema}]
    for op in ops:
        if op["op"] in MUTATING:
            full.append({"op": "fault_sweep", "inner": op, "code": code, "max_k": 600, "keep_going": True})
        else:
            full.append(op)
    # an update of a populated track from a different rich snapshot
    from .. import gen_snap as GS
    full.append({"op": "fault_sweep", "inner": {"op": "update", "t": "t0", "snap": GS.gen_snapshot(rng, schema, rich=True, hostile_sentinels=False)},
                 "code": code, "max_k": 600, "keep_going": True})
    return {"id": cid, "schema": schema, "ops": full, "_code": code}


def judge_case(ctx, res):
    case = res.case
    schema = case["schema"]
    fam = family(schema)
    ops = case["ops"]
    ctx.bump_in("cases_by_schema", schema)
    wit = {"schema": schema, "code": case["_code"], "ops": ops}
    for k, ev in enumerate(res.events):
        op = ops[k]
        if op["op"] != "fault_sweep":
            continue
        od = opdesc(op["inner"])
        if "exc" in ev:
            if "harness_error" in ev["exc"].get("is", []):
                ctx.bump("sweeps_skipped_missing_handle")
                continue
            what = bytes.fromhex(ev["exc"].get("what", "")).decode(errors="replace")[:100]
            ctx.violation(f"library-unusable {fam} {od}", f"{schema}: observing the library around {od} throws {ev['exc']['type']}: {what}", wit)
            return
        r = ev["ret"]
        nst = r["statements"]
        ctx.bump_in("sweeps", od)
        mx = ctx.extra.setdefault("max_statements_per_call", {})
        mx[od] = max(mx.get(od, 0), nst)
        for run in r["runs"]:
            ctx.count()
            ctx.bump("faults_fired")
            ctx.bump_in("faults_by_call", od)
            sqlk = (run.get("sql") or "").strip().split(" ")[0].upper()
            ctx.bump_in("faulted_statement_kinds", sqlk)
            if nst >= 2:
                ctx.nontriv("%s|%s|%d" % (schema, od, run["k"]))
        bad_runs = [run for run in r["runs"] if not run["threw"] or run.get("txn") or not run["same"]]
        for run in bad_runs:
            sql = (run.get("sql") or "")[:90]
            if run.get("nonstd"):
                ctx.violation(f"non-std-exception {fam} {od}", f"{od} threw a non-std exception under a failing statement", wit)
            if not run["threw"]:
                ctx.violation(f"fault-swallowed {fam} {od}",
                              f"{schema}: statement {run['k']} of {od} failed ({sql}) but the call returned normally", wit)
            if run.get("txn"):
                ctx.violation(f"transaction-left-open {fam} {od}",
                              f"{schema}: after statement {run['k']} of {od} failed ({sql}) the connection is still inside a transaction", wit)
            if not run["same"]:
                paths = diff_paths(run.get("before"), run.get("after"), limit=4)
                sites = sorted({generic_site(p) for p in paths})
                ctx.violation(f"partial-update {fam} {od}",
                              f"{schema}: statement {run['k']} of {od} failed ({sql}), the call "
                              f"{'threw' if run['threw'] else 'returned'}, and the observable state changed at {paths[:3]}",
                              {"schema": schema, "code": case["_code"], "ops": ops[:k + 1], "sites": sites})
        if r["stopped"] == "violation":
            return  # too many violations inside one call: later steps would run on a corrupted state
        if r["stopped"] == "max_k":
            ctx.fail_harness("fault sweep of %s did not reach a fault-free run within max_k" % od)
            return
        fin = r.get("final", {})
        if fin.get("nonstd"):
            ctx.violation(f"non-std-exception {fam} {od}", f"{od} threw a non-std exception", wit)
    if res.crash:
        c = res.crash
        if c["op_index"] < 0:
            ctx.fail_harness("executor died outside any op: %s" % c["kind"])
            return
        op = ops[c["op_index"]] if c["op_index"] < len(ops) else {"op": "?"}
        od = opdesc(op["inner"]) if op["op"] == "fault_sweep" else op["op"]
        ctx.violation(f"op-did-not-complete {fam} {od} {c['kind']} at={c['site']}",
                      f"{schema}: {od} under fault injection did not complete: {c['kind']} in {c['site']}", dict(wit, crash=c["kind"]))


def run(ctx):
    per = 16 if ctx.tier == "quick" else 150
    codes = CODES[ctx.tier]
    cases = []
    n = 0
    for schema in ALL_SCHEMAS:
        for k in range(per):
            cases.append(make_case("f%d" % n, ctx.rng, schema, 22 + (k % 3) * 6, codes[k % len(codes)]))
            n += 1
    c0 = cases[0]
    ctx.sample({"schema": c0["schema"], "calls": [opdesc(o["inner"]) for o in c0["ops"] if o["op"] == "fault_sweep"][:14]})
    ctx.assumptions += ["an injected fault is returned instead of executing the statement, so the failed statement itself has no effect "
                        "by construction; ROLLBACK statements are never failed",
                        "the verdict is equality of full public observations (API level), the autocommit flag, and that the call threw",
                        "error codes: SQLITE_FULL in quick; FULL, IOERR, BUSY, CONSTRAINT in thorough"]
    runner.run_cases(cases, cfg="plain", on_result=lambda r: judge_case(ctx, r), stall_timeout=120)
    seen = set(ctx.extra.get("cases_by_schema", {}))
    if seen != set(ALL_SCHEMAS):
        ctx.fail_harness("schema versions not covered: %s" % sorted(set(ALL_SCHEMAS) - seen))
    fired = ctx.extra.get("faults_by_call", {})
    need = ["create_track", "update", "remove_track", "create_root_crate", "create_sub_crate", "set_name", "set_parent",
            "remove_crate", "add_track", "remove_track_from", "clear_tracks"] + ["set:" + f for f in GH.SETTER_FIELDS]
    missing = [x for x in need if not fired.get(x)]
    if missing:
        ctx.fail_harness("no fault was ever fired inside: %s" % missing)


def replay(ctx, doc):
    r = doc["replay"]
    case = {"id": "replay", "schema": r["schema"], "ops": r["ops"], "_code": r.get("code", 13)}
    judge_case(ctx, runner.run_one(case, cfg="plain", stall_timeout=120))
