"""C16 - observing a library never modifies it.

A populated library (in memory and on disk) is observed by a block of observing
calls.  Around the block the monitor records sqlite3_total_changes on every
connection the library opened, a digest of every table of every attached
database read with plain SELECTs, and for on-disk libraries a digest of every
file under the directory.  None may move; and the same observer asked twice
must give the same answer."""
import os
import shutil

from .. import gen_hist as GH, runner
from ..framework import ALL_SCHEMAS, dir_name, family, is_v2

LEVEL = "exploration"
RULE = ("library states on all 18 versions from mixed histories (rich tracks, setters, crates, memberships), in memory "
        "and on disk; the observing block is observe_all twice (every getter, snapshot(), listing and lookup incl. ids "
        "and names that do not exist), verify(), database_exists(dir), a second load_database(dir) while the first is "
        "open, and on 2.x every read-only table-API call; non-trivial = the state has >= 2 tracks with performance "
        "data, >= 3 crates and >= 2 memberships; distinct by canonical history")


ENV_DEFAULT_ROWS = [0]


def make_case(cid, rng, schema, root, n_ops, disk):
    ops, metas = GH.gen_library_history(rng, schema, n_ops)
    d = os.path.join(root, dir_name(cid, int(cid[1:]) if cid[1:].isdigit() and int(cid[1:]) % 3 == 0 else 0))
    v2 = is_v2(schema)
    if disk:
        first = {"op": "lib_create" if v2 else "create", "schema": schema, "dir": d}
    else:
        first = {"op": "lib_create_temporary" if v2 else "create_temporary", "schema": schema}
    pre = []
    if cid[1:].isdigit() and int(cid[1:]) % 5 == 2:
        # ids of a long-lived library (around 2^31 / 2^32 / 2^53)
        pre = GH.first_id_prelude(schema, GH.FIRST_IDS[(int(cid[1:]) // 5) % len(GH.FIRST_IDS)])
    full = [first] + pre + ops
    marks = [None] * len(full)

    def add(op, mark):
        full.append(op)
        marks.append(mark)

    if rng.random() < 0.5:
        # remove the most recently created track (the one with the highest id), sometimes creating another afterwards
        from .. import gen_snap as GS2
        add({"op": "create_track", "as": "tlast", "snap": {"relative_path": GS2.hx("last/one%d.mp3" % rng.randrange(10 ** 6))}}, None)
        add({"op": "remove_track", "t": "tlast"}, None)
        if rng.random() < 0.5:
            add({"op": "create_track", "as": "tlast2", "snap": {"relative_path": GS2.hx("last/two%d.mp3" % rng.randrange(10 ** 6))}}, None)
    if v2:
        # states that only the public table API reaches: individual nullable columns cleared or set on their own
        # (e.g. bpmAnalyzed present while bpm is NULL), on up to three tracks
        NULLABLE = ["play_order", "bpm", "year", "bitrate", "bpm_analyzed", "file_bytes", "title", "artist", "album", "genre",
                    "comment", "label", "composer", "remixer", "key", "time_last_played", "played_indicator",
                    "streaming_source", "uri", "third_party_source_id"]
        for k in range(3):
            add({"op": "trk_all_ids", "bind": "tid%d" % k, "bind_index": k}, None)
        for _ in range(rng.randrange(4, 12)):
            col = rng.choice(NULLABLE)
            val = None
            if rng.random() < 0.4:
                val = {"bpm": 123, "bpm_analyzed": "405ec00000000000", "year": 1999, "key": 5, "bitrate": 320, "play_order": 3,
                       "file_bytes": 1000, "played_indicator": 9, "third_party_source_id": 4,
                       "time_last_played": 1600000000 * 10 ** 9}.get(col, "7374796c65")
            add({"op": "trk_set_col", "id": "$tid%d" % rng.randrange(3), "col": col, "value": val}, None)
        if rng.random() < 0.5:
            # a track as Engine DJ leaves one it has not analysed: performance blobs that are NULL or empty
            colname = rng.choice(["quickCues", "loops", "beatData", "trackData", "overviewWaveFormData"])
            add({"op": "raw_exec", "sql": "UPDATE Track SET %s = %s WHERE id = (SELECT MAX(id) FROM Track)" % (colname, rng.choice(["NULL", "x''"]))}, None)
    else:
        # 1.x: the same kind of state through plain SQL (foreign writers leave such rows)
        for _ in range(rng.randrange(2, 6)):
            sql = rng.choice(["UPDATE Track SET bpm = NULL WHERE id = (SELECT MIN(id) FROM Track WHERE path IS NOT NULL)",
                              "UPDATE Track SET bpmAnalyzed = NULL WHERE id = (SELECT MAX(id) FROM Track WHERE path IS NOT NULL)",
                              "UPDATE Track SET bpmAnalyzed = 99.5, bpm = NULL WHERE id = (SELECT MIN(id) FROM Track WHERE path IS NOT NULL)",
                              "DELETE FROM MetaData WHERE type = 1 AND id = (SELECT MIN(id) FROM Track WHERE path IS NOT NULL)",
                              "DELETE FROM MetaDataInteger WHERE type = 5",
                              "DELETE FROM PerformanceData WHERE id = (SELECT MAX(id) FROM Track WHERE path IS NOT NULL)",
                              "UPDATE Track SET length = NULL, year = NULL"])
            add({"op": "raw_exec", "sql": sql}, None)
    if rng.random() < 0.4:
        # derived columns as another writer leaves them: the stored file name in other letter case than the path's last component
        add({"op": "raw_exec", "sql": rng.choice(["UPDATE Track SET filename = upper(filename) WHERE id = (SELECT MIN(id) FROM Track WHERE path IS NOT NULL)",
                                                  "UPDATE Track SET filename = lower(filename)",
                                                  "UPDATE Track SET filename = filename || ' (1)' WHERE id = (SELECT MAX(id) FROM Track WHERE path IS NOT NULL)"])}, None)
    if rng.random() < 0.35:
        # rows this library writes once, when it creates a library, are not there (libraries made by earlier releases of this library
        # or by other exporters lack them): the "no album art" row every track points at; on 1.x also the default history / prepare lists
        sqls = ["DELETE FROM AlbumArt WHERE id = 1"]
        if not v2 and schema not in ("1.6.0", "1.7.1"):
            sqls.append(rng.choice(["DELETE FROM List WHERE type = 2", "DELETE FROM List WHERE type = 3", "DELETE FROM List WHERE type IN (2, 3)"]))
        for q in sqls[:rng.randrange(1, len(sqls) + 1)]:
            add({"op": "raw_exec", "sql": q}, None)
        ENV_DEFAULT_ROWS[0] += 1
    if disk:
        # the audio files the tracks name really exist next to the library; every other track has no stored file size
        add({"op": "touch_track_files", "dir": d, "clear_sizes": True}, "touch")
    # lookups must also be asked for keys that do not exist
    add({"op": "note", "names": ["6e6f2d737563682d6372617465", "41"], "paths": ["6e6f2f737563682f706174682e6d7033"], "ids": [0, -1, 424242]}, None)
    add({"op": "counters"}, "c0")
    add({"op": "rawdump", "digest": True, "checks": False}, "d0")
    if disk:
        add({"op": "file_digest", "dir": d}, "f0")
    add({"op": "observe_all", "verify": True, "probe_span": 8}, "o1")
    add({"op": "observe_all", "verify": True, "probe_span": 8}, "o2")
    add({"op": "verify"}, "verify")
    if v2:
        add({"op": "table_observe"}, "t1")
        add({"op": "table_observe"}, "t2")
    if disk:
        add({"op": "exists", "dir": d}, "exists")
        add({"op": "load_probe", "dir": d}, "load_probe")
        # the version-specific public entry points are observers too (on a 1.x library they must refuse, and change nothing)
        add({"op": "lib_exists", "dir": d}, "lib_exists")
        add({"op": "lib_load_probe", "dir": d}, "lib_load_probe")
        add({"op": "lib_exists", "dir": d + "/"}, "lib_exists2")
        add({"op": "exists", "dir": d}, "exists2")
    add({"op": "handle_ops", "h": "t0"}, "handle_ops")
    add({"op": "counters"}, "c1")
    add({"op": "rawdump", "digest": True, "checks": False}, "d1")
    if disk:
        add({"op": "file_digest", "dir": d}, "f1")
    # the library must still be usable and unchanged after a full release as well
    if disk:
        add({"op": "release_all"}, None)
        add({"op": "file_digest", "dir": d}, "f2")
        add({"op": "load_probe", "dir": d}, "load_probe2")
        add({"op": "file_digest", "dir": d}, "f3")
    return {"id": cid, "schema": schema, "dir": d if disk else None, "ops": full, "_marks": marks, "_disk": disk}


def judge_case(ctx, res):
    from .c10 import count_state, diff_paths, generic_site
    case = res.case
    schema = case["schema"]
    fam = family(schema)
    stor = "disk" if case["_disk"] else "memory"
    ctx.bump_in("cases_by_schema", schema)
    ctx.bump_in("cases_by_storage", stor)
    wit = {"schema": schema, "storage": stor, "ops": case["ops"]}
    if res.crash:
        c = res.crash
        if c["op_index"] < 0:
            ctx.fail_harness("executor died outside any op: %s" % c["kind"])
            return
        ctx.violation(f"op-did-not-complete {fam} {c.get('op')} {c['kind']} at={c['site']}",
                      f"{schema}: {c.get('op')} did not complete: {c['kind']} in {c['site']}", dict(wit, crash=c["kind"]))
        return
    by = {}
    for m, ev in zip(case["_marks"], res.events):
        if m:
            by[m] = ev
    need = ["c0", "d0", "o1", "o2", "c1", "d1"]
    if any(n not in by or "exc" in by[n] for n in need):
        bad = [n for n in need if n not in by or "exc" in by[n]]
        ev = by.get(bad[0])
        if ev and "exc" in ev and "harness_error" not in ev["exc"].get("is", []):
            ctx.violation(f"observer-throws {fam} {bad[0]}", f"{schema}: observing block step {bad[0]} throws {ev['exc']['type']}", wit)
        else:
            ctx.fail_harness("observing block incomplete: %s" % bad)
        return
    ctx.count()
    if "touch" in by and "ret" in by["touch"]:
        ctx.bump("audio_files_that_really_exist_next_to_the_library", by["touch"]["ret"]["made"])
    n_wr = 0
    for m in ("o1", "o2", "verify", "t1", "t2", "exists", "load_probe", "handle_ops"):
        if m in by:
            ctx.bump_in("observer_blocks", m)
            n_wr += by[m].get("sh", {}).get("wr", 0)
            if by[m].get("sh", {}).get("txn"):
                ctx.violation(f"observer-leaves-transaction-open {fam} {m}", f"{schema}: a transaction is open after {m}", wit)
    ctx.bump("non_readonly_statements_during_observation", n_wr)
    for m in ("verify", "exists", "load_probe", "t1", "handle_ops"):
        if m in by and "exc" in by[m]:
            x = by[m]["exc"]
            ctx.violation(f"observer-throws {fam} {m}", f"{schema}: {m} throws {x['type']} on a library made through the API", wit)
    if "lib_exists" in by:
        v2 = is_v2(schema)
        ctx.bump_in("observer_blocks", "v2-entry-points")
        for m in ("lib_exists", "lib_exists2"):
            if by[m].get("ret") is not v2:
                ctx.violation(f"v2-exists-wrong {fam}", f"{schema}: engine_library::exists() = {by[m].get('ret', by[m].get('exc', {}).get('type'))}", wit)
        lp = by["lib_load_probe"]
        if v2 and ("exc" in lp or lp["ret"].get("schema") != schema):
            ctx.violation(f"v2-load-wrong {fam}", f"{schema}: engine_library::load() gives {lp.get('ret', lp.get('exc', {}).get('type'))}", wit)
        if not v2 and "exc" not in lp:
            ctx.violation(f"v2-load-accepts-legacy-library {fam}", f"{schema}: engine_library::load() loads a 1.x library as {lp.get('ret')}", wit)
        for m in ("exists", "exists2"):
            if by[m].get("ret") is not True:
                ctx.violation(f"exists-flips {fam}", f"{schema}: database_exists() is {by[m].get('ret')} for an existing library during the observing block", wit)
    tc0, tc1 = by["c0"]["ret"]["total_changes"], by["c1"]["ret"]["total_changes"]
    if tc0 != tc1:
        ctx.violation(f"total-changes-moved {fam} {stor}", f"{schema}: sqlite3_total_changes went from {tc0} to {tc1} across the observing block", wit)
    d0, d1 = by["d0"]["ret"], by["d1"]["ret"]
    ctx.state("distinct_library_states_observed", d0)
    if d0 != d1:
        where = diff_paths(d0, d1)
        ctx.violation(f"stored-content-changed {fam} {stor} {generic_site(where[0]) if where else ''}",
                      f"{schema}: table digests changed across the observing block at {where[:3]}", wit)
    if "f0" in by and "f1" in by and by["f0"].get("ret") != by["f1"].get("ret"):
        ctx.violation(f"files-changed {fam}", f"{schema}: files under the library directory changed across the observing block: "
                      f"{diff_paths(by['f0'].get('ret'), by['f1'].get('ret'))[:3]}", wit)
    if "f2" in by and "f3" in by and by["f2"].get("ret") != by["f3"].get("ret"):
        ctx.violation(f"files-changed-by-load {fam}", f"{schema}: loading and releasing the library changed its files: "
                      f"{diff_paths(by['f2'].get('ret'), by['f3'].get('ret'))[:3]}", wit)
    o1, o2 = by["o1"]["ret"], by["o2"]["ret"]
    from ..framework import held_handles
    held_handles(ctx, o1, fam, schema, wit, " (observing block)")
    for p in diff_paths(o1, o2):
        ctx.violation(f"repeated-observation-differs {fam} {generic_site(p)}", f"{schema}: the same observer answered differently the second time at {p}", wit)
    if "t1" in by and "t2" in by and "ret" in by["t1"] and "ret" in by["t2"]:
        for p in diff_paths(by["t1"]["ret"], by["t2"]["ret"]):
            ctx.violation(f"repeated-observation-differs {fam} table{generic_site(p)}", f"{schema}: table-API observation differs the second time at {p}", wit)
    ctx.bump("digest_tables_compared", sum(len(v.get("tables") or {}) for v in d0.values()))
    perf, nc, nm = count_state(o1)
    if perf >= 2 and nc >= 3 and nm >= 2:
        ctx.nontriv({"schema": schema, "storage": stor, "ops": case["ops"]})


def nolib_cases(root):
    """Directories that hold no library: database_exists() and a failing load must leave them exactly as they were."""
    cases = []
    shapes = {"empty": [], "unrelated-file": ["notes.txt"], "p.db-only": ["p.db"], "empty-Database2": ["Database2/"],
              "Database2-other-file": ["Database2/", "Database2/other.db"]}
    for name, entries in shapes.items():
        d = os.path.join(root, "nolib-" + name)
        os.makedirs(d, exist_ok=True)
        for e in entries:
            if e.endswith("/"):
                os.makedirs(os.path.join(d, e), exist_ok=True)
            else:
                open(os.path.join(d, e), "w").write("x" * 10)
        cases.append({"id": "nolib-" + name, "schema": "-", "_nolib": name, "_disk": True, "dir": d, "_marks": [],
                      "ops": [{"op": "file_digest", "dir": d}, {"op": "exists", "dir": d}, {"op": "load", "dir": d},
                              {"op": "exists", "dir": d + "/"}, {"op": "file_digest", "dir": d},
                              {"op": "lib_exists", "dir": d}, {"op": "lib_load_probe", "dir": d}, {"op": "lib_exists", "dir": d},
                              {"op": "exists", "dir": d}, {"op": "file_digest", "dir": d}]})
    d = os.path.join(root, "nolib-missing")
    cases.append({"id": "nolib-missing", "schema": "-", "_nolib": "missing", "_disk": True, "dir": None, "_marks": [],
                  "ops": [{"op": "file_digest", "dir": root + "/does-not-exist"}, {"op": "exists", "dir": root + "/does-not-exist"},
                          {"op": "load", "dir": root + "/does-not-exist"}, {"op": "exists", "dir": root + "/does-not-exist/"},
                          {"op": "file_digest", "dir": root + "/does-not-exist"}]})
    return cases


def stale_stats_cases(root, tier):
    """A library that another tool once ran ANALYZE on and that has grown a lot since through that other tool (stale planner
    statistics), then a purely observing session: load, listings and every kind of lookup, release.  The files must not
    change.  Phase 1 (the library's own code) creates a small library; phase 2 (Python's sqlite3, the foreign writer)
    analyses it and imports crates and tracks; phase 3 (returned here) observes."""
    import sqlite3
    grow = 1500 if tier == "quick" else 6000
    setup = []
    dirs = {}
    for i, schema in enumerate(ALL_SCHEMAS):
        d = os.path.join(root, "stale%d" % i)
        os.makedirs(d, exist_ok=True)
        dirs[schema] = d
        v2 = is_v2(schema)
        ops = [{"op": "lib_create" if v2 else "create", "schema": schema, "dir": d}]
        for j in range(3):
            ops.append({"op": "create_track", "as": "t%d" % j, "snap": {"relative_path": GH.GS.hx("st/first %d.mp3" % j), "title": GH.GS.hx("T%d" % j)}})
            ops.append({"op": "create_root_crate", "name": GH.GS.hx("first %d" % j), "as": "c%d" % j})
            ops.append({"op": "add_track", "c": "c%d" % j, "t": "t%d" % j})
        ops.append({"op": "create_sub_crate", "c": "c0", "name": GH.GS.hx("sub"), "as": "c9"})
        ops.append({"op": "release_all"})
        setup.append({"id": "stalesetup%d" % i, "schema": schema, "ops": ops, "no_tz": True})
    done = {}
    runner.run_cases(setup, cfg="plain", on_result=lambda r: done.__setitem__(r.case["schema"], not r.crash and not any("exc" in e for e in r.events)))
    cases = []
    for i, schema in enumerate(ALL_SCHEMAS):
        d = dirs[schema]
        v2 = is_v2(schema)
        if not done.get(schema):
            continue
        con = sqlite3.connect(os.path.join(d, "Database2", "m.db") if v2 else os.path.join(d, "m.db"))
        try:
            if i % 2 == 0:
                # every other library is left in write-ahead-log mode, as Engine DJ leaves its databases
                con.execute("PRAGMA journal_mode = WAL").fetchall()
            con.execute("ANALYZE")
            con.commit()
            if v2:
                for j in range(grow):
                    con.execute("INSERT INTO Playlist (title, parentListId, isPersisted, nextListId, lastEditTime, isExplicitlyExported) "
                                "VALUES (?, 0, 1, 0, '2024-05-01 12:00:00', 1)", ("Imported %d" % j,))
            else:
                # the foreign writer copies the first crate's rows under new ids (all redundant encodings kept consistent)
                tables = {r[0] for r in con.execute("SELECT name FROM sqlite_master WHERE type = 'table'")}
                if "Crate" in tables:
                    base = con.execute("SELECT MAX(id) FROM Crate").fetchone()[0]
                    for j in range(grow):
                        cid = base + 1 + j
                        con.execute("INSERT INTO Crate (id, title, path) VALUES (?, ?, ?)", (cid, "Imported %d" % j, "Imported %d;" % j))
                        con.execute("INSERT INTO CrateParentList (crateOriginId, crateParentId) VALUES (?, ?)", (cid, cid))
                # (from 1.9.1 the crates live in a List table behind views; there the statistics are left without growth)
            con.commit()
        except sqlite3.Error:
            con.close()
            continue
        con.close()
        ops = [{"op": "file_digest", "dir": d}, {"op": "set_budget", "vdbe": 4 * 10 ** 9},
               {"op": "load_probe", "dir": d, "lookups": True, "lookups_limit": 60}, {"op": "file_digest", "dir": d},
               {"op": "load_probe", "dir": d, "lookups": True, "lookups_limit": 60}, {"op": "file_digest", "dir": d}]
        cases.append({"id": "stale%d" % i, "schema": schema, "_stale": True, "_disk": True, "dir": d, "_marks": [], "ops": ops, "no_tz": True,
                      "_wal": i % 2 == 0})
    return cases


def judge_stale(ctx, res):
    schema = res.case["schema"]
    fam = family(schema)
    ev = res.events
    ctx.count()
    ctx.bump("stale_statistics_cases")
    if res.case.get("_wal"):
        ctx.bump("foreign_libraries_in_wal_mode")
    wit = {"schema": schema, "ops": res.case["ops"], "note": "a small library made through the API, then ANALYZEd and grown by a foreign "
           "writer (plain SQL), then only observed"}
    if res.crash or len(ev) < 6:
        ctx.violation(f"op-did-not-complete {fam} stale-statistics", f"{schema}: the stale-statistics case did not complete", wit)
        return
    f0, p1, f1, p2, f2 = ev[0], ev[2], ev[3], ev[4], ev[5]
    for p in (p1, p2):
        if "exc" in p:
            ctx.violation(f"observer-throws {fam} stale-statistics", f"{schema}: loading and looking things up in a library with planner statistics throws {p['exc']['type']}", wit)
            return
    ctx.bump("stale_statistics_lookups", p1["ret"].get("lookups", 0))
    from .c10 import diff_paths
    if f0.get("ret") != f1.get("ret") or f1.get("ret") != f2.get("ret"):
        ctx.violation(f"files-changed-by-observing-session {fam} stale-statistics",
                      f"{schema}: a session that only loaded the library and looked things up changed its files: "
                      f"{(diff_paths(f0.get('ret'), f1.get('ret')) or diff_paths(f1.get('ret'), f2.get('ret')))[:3]}", wit)


def judge_nolib(ctx, res):
    name = res.case["_nolib"]
    ev = res.events
    ctx.count()
    ctx.bump_in("no_library_directories", name)
    wit = {"ops": res.case["ops"], "shape": name}
    if res.crash or len(ev) < 5:
        ctx.violation(f"op-did-not-complete nolib {name}", "probing a directory without a library did not complete", wit)
        return
    if ev[0].get("ret") != ev[4].get("ret"):
        ctx.violation(f"files-changed-by-probing-nolib {name}",
                      f"database_exists()/load_database() on a directory without a library ({name}) changed it: {ev[0].get('ret')} -> {ev[4].get('ret')}", wit)
    if ev[1].get("ret") is not False or ev[3].get("ret") is not False:
        ctx.violation(f"exists-true-without-library {name}", f"database_exists() is not false for a directory without a library ({name})", wit)
    if len(ev) >= 10:
        if ev[0].get("ret") != ev[9].get("ret"):
            ctx.violation(f"files-changed-by-probing-nolib {name} v2-entry-points",
                          f"engine_library::exists()/load() on a directory without a library ({name}) changed it: {ev[0].get('ret')} -> {ev[9].get('ret')}", wit)
        if ev[5].get("ret") is not False or ev[7].get("ret") is not False or ev[8].get("ret") is not False or "exc" not in ev[6]:
            ctx.violation(f"exists-true-without-library {name} v2-entry-points",
                          f"engine_library::exists()/load() do not refuse a directory without a library ({name})", wit)


def run(ctx):
    per = 40 if ctx.tier == "quick" else 600
    root = runner.scratch_dir("djc16_")
    try:
        cases = []
        n = 0
        for schema in ALL_SCHEMAS:
            for k in range(per):
                c = make_case("s%d" % n, ctx.rng, schema, root, 24 + (k % 3) * 10, disk=(k % 2 == 0))
                if c["dir"]:
                    os.makedirs(c["dir"], exist_ok=True)
                    if k % 8 == 2 and not is_v2(schema):
                        # a stray, empty Database2 folder next to a 1.x library (left by other software)
                        os.makedirs(os.path.join(c["dir"], "Database2"), exist_ok=True)
                        ctx.bump("legacy_libraries_with_stray_Database2_folder")
                cases.append(c)
                n += 1
        ctx.extra["states_without_the_rows_written_once_at_creation"] = ENV_DEFAULT_ROWS[0]
        ctx.sample({"schema": cases[0]["schema"], "block": [m for m in cases[0]["_marks"] if m]})
        ctx.assumptions += ["the verdict is total_changes + table digests + file digests + repeatability; the count of "
                            "non-read-only statements stepped during observation is logged only (an UPDATE that matches nothing modifies nothing)"]
        nol = nolib_cases(root)
        stale = stale_stats_cases(root, ctx.tier)

        def on(r):
            if r.case.get("_nolib"):
                judge_nolib(ctx, r)
            elif r.case.get("_stale"):
                judge_stale(ctx, r)
            else:
                judge_case(ctx, r)

        runner.run_cases(cases + nol + stale, cfg="plain", on_result=on)
    finally:
        shutil.rmtree(root, ignore_errors=True)
    seen = set(ctx.extra.get("cases_by_schema", {})) - {"-"}
    if seen != set(ALL_SCHEMAS):
        ctx.fail_harness("schema versions not covered: %s" % sorted(set(ALL_SCHEMAS) - seen))
    if set(ctx.extra.get("cases_by_storage", {})) != {"disk", "memory"}:
        ctx.fail_harness("both storage kinds must be covered")


def replay(ctx, doc):
    r = doc["replay"]
    root = runner.scratch_dir("djc16r_")
    try:
        ops = r["ops"]
        disk = r["storage"] == "disk"
        old = ops[0].get("dir")
        d = os.path.join(root, "replay")
        os.makedirs(d, exist_ok=True)
        new_ops = []
        for o in ops:
            o = dict(o)
            if "dir" in o and old:
                o["dir"] = o["dir"].replace(old, d)
            new_ops.append(o)
        # recompute marks
        marks = []
        seen = {}
        for o in new_ops:
            k = o["op"]
            m = None
            if k == "counters":
                m = "c0" if "c0" not in seen else "c1"
            elif k == "rawdump":
                m = "d0" if "d0" not in seen else "d1"
            elif k == "file_digest":
                m = "f%d" % len([x for x in seen if x.startswith("f")])
            elif k == "observe_all":
                m = "o1" if "o1" not in seen else "o2"
            elif k == "table_observe":
                m = "t1" if "t1" not in seen else "t2"
            elif k in ("verify", "exists", "handle_ops"):
                m = k
            elif k == "load_probe":
                m = "load_probe" if "load_probe" not in seen else "load_probe2"
            if m:
                seen[m] = 1
            marks.append(m)
        case = {"id": "replay", "schema": r["schema"], "dir": d, "ops": new_ops, "_marks": marks, "_disk": disk}
        judge_case(ctx, runner.run_one(case, cfg="plain"))
    finally:
        shutil.rmtree(root, ignore_errors=True)
