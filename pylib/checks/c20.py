"""C20 - beat-grid normalisation brackets the track and keeps its tempo.

Oracle: exact rational arithmetic (fractions.Fraction) over the doubles the
library receives and returns; six separately keyed postconditions."""
import math
import struct
from fractions import Fraction as F

from .. import runner

LEVEL = "exploration"
RULE = ("strictly increasing beat grids (index and offset) of 0..64 markers with any starting index, markers before 0 "
        "and beyond the end in every combination, two classes: dyadic (offsets and beat lengths multiples of 1/16, "
        "exact comparison) and general doubles (relative tolerance 2^-40); a case is non-trivial when it has >=2 "
        "markers and at least one marker at or before 0 or at or beyond the end (so trimming/sliding happens); "
        "distinct by (grid, count)")

TOL = F(1, 2 ** 40)


def dbits(x):
    return struct.pack(">d", x).hex()


def undbits(h):
    return struct.unpack(">d", bytes.fromhex(h))[0]


def derive(grid, count, end_incl=True, start_incl=True):
    """The one grid the statement allows, exactly, or None if none exists.
    grid: list of (idx:int, off:Fraction); count:int.  Returns (E, info).
    The statement does not say whether a marker lying exactly on the track end
    (or exactly on offset 0) counts as beyond (before) it; end_incl/start_incl
    select the convention and the judge accepts any of them."""
    n = len(grid)
    # last marker kept: first marker at or beyond the end
    j = next((i for i, (_, o) in enumerate(grid) if (o >= count if end_incl else o > count)), None)
    kept = grid[:j + 1] if j is not None else list(grid)
    # first marker kept: last marker at or before 0
    i = next((k for k, (_, o) in enumerate(kept) if (o > 0 if start_incl else o >= 0)), None)
    if i is None:
        kept = kept[-1:]
    elif i > 0:
        kept = kept[i - 1:]
    info = {"kept": len(kept), "slid_first": bool(kept) and kept[0][1] <= 0 if kept else False,
            "slid_last": j is not None}
    if len(kept) < 2:
        return None, info
    (ai, ao), (bi, bo) = kept[0], kept[1]
    spb1 = (bo - ao) / (bi - ai)
    first = (-4, ao - (4 + ai) * spb1)
    work = [first] + kept[1:]
    if not (work[0][0] < work[1][0] and work[0][1] < work[1][1]):
        info["E_valid"] = False
        info["why"] = "first-crosses-second"
        return None, info
    (yi, yo), (zi, zo) = work[-2], work[-1]
    spbl = (zo - yo) / (zi - yi)
    q = (count - zo) / spbl
    adj = math.ceil(q)
    last = (zi + adj, zo + adj * spbl)
    E = work[:-1] + [last]
    info["q_frac"] = q - math.floor(q)
    info["spb_last"] = spbl
    info["extrap"] = abs(adj) + abs(4 + ai)
    # is E a grid?
    ok = all(E[k][0] < E[k + 1][0] and E[k][1] < E[k + 1][1] for k in range(len(E) - 1))
    info["E_valid"] = ok
    if not ok:
        info["why"] = "last-not-after-prev"
    return (E if ok else None), info


def in_domain(grid, count):
    if len(grid) < 2:
        return True
    for (i, o) in grid:
        if abs(i) > 10 ** 6 or abs(o) > 2 ** 45:
            return False
    # normalised indices must be representable comfortably in int32
    for k in range(len(grid) - 1):
        spb = (grid[k + 1][1] - grid[k][1]) / (grid[k + 1][0] - grid[k][0])
        if spb <= 0:
            return False
        if (abs(count) + abs(grid[k + 1][1]) + abs(grid[k][1])) / spb > 2 ** 29:
            return False
    return True


def gen_grid(rng, dyadic):
    roll = rng.random()
    if roll < 0.02:
        n = 0
    elif roll < 0.05:
        n = 1
    elif roll < 0.45:
        n = 2
    elif roll < 0.75:
        n = rng.randrange(3, 6)
    elif roll < 0.985:
        n = rng.randrange(6, 65)
    else:
        n = rng.choice([127, 128, 129, 255, 256, 257, 1000, 4000])   # grids as dense as a marker every few beats of a long set
    count = rng.choice([1, 2, 1000, 44100, 48000 * 200, rng.randrange(1, 10 ** 7), rng.randrange(1, 2 ** 31),
                        rng.choice([2 ** 31 - 1, 2 ** 31, 2 ** 31 + 1, 2 ** 32, 2 ** 32 + 5, 2 ** 40])])
    if dyadic:
        beat = F(rng.randrange(16 * 16, 16 * 65536), 16)
    else:
        beat = F(rng.uniform(50.0, 60000.0))
    # place the grid relative to the track
    start_idx = rng.choice([-4, -4, 0, 1, -5, -12, -100, 17, rng.randrange(-2000, 2000)])
    mode = rng.random()
    if mode < 0.55:
        start_off = -beat * rng.randrange(0, 12) - (F(rng.randrange(0, 16), 16) if dyadic else F(rng.uniform(0, float(beat))))
    elif mode < 0.7:
        start_off = F(0)
    elif mode < 0.9:
        start_off = F(rng.randrange(0, count)) if dyadic else F(rng.uniform(0, count))
    elif mode < 0.95:
        start_off = F(count) + beat * rng.randrange(0, 5)
    else:
        start_off = -beat * rng.randrange(100, 5000)
    grid = []
    idx, off = start_idx, start_off
    # aim the grid end at various places relative to the track end
    span_beats = max(1, int(F(count) / beat))
    for k in range(n):
        grid.append((idx, off))
        r = rng.random()
        if r < 0.3:
            d = rng.randrange(1, 5)
        elif r < 0.7:
            d = max(1, span_beats // max(1, n - 1) + rng.randrange(-2, 3))
        else:
            d = rng.randrange(1, max(2, 2 * span_beats))
        d = max(1, min(d, 10 ** 5))
        if dyadic:
            b = beat + F(rng.randrange(-64, 65), 16) if rng.random() < 0.5 else beat
            if b <= 0:
                b = beat
        else:
            b = beat * F(rng.uniform(0.97, 1.03)) if rng.random() < 0.5 else beat
        idx += d
        off += b * d
        if rng.random() < 0.05 and k == n - 2:
            off = F(count)  # a marker exactly at the end
    if not dyadic:
        grid = [(i, F(float(o))) for i, o in grid]
        # rounding may have broken strict monotonicity for tiny beats; repair by dropping
        g2 = []
        for i, o in grid:
            if not g2 or o > g2[-1][1]:
                g2.append((i, o))
        grid = g2
    else:
        # every dyadic offset must be exactly representable
        grid = [(i, o) for i, o in grid if float(o) == o]
    if len(grid) >= 2 and rng.random() < 0.25:
        # the end of the track placed within a sample of a whole number of beats after the last marker (the last marker's
        # offset is fractional in the general class, so floor and ceil bracket the boundary by less than one sample)
        (i0, o0), (i1, o1) = grid[-2], grid[-1]
        bl = (o1 - o0) / (i1 - i0)
        x = o1 + bl * rng.choice([0, 1, 1, 2, 3, 7, 64])
        c = int(x // 1) + rng.choice([-1, 0, 0, 1, 1, 2])
        if 1 <= c < 2 ** 40:
            count = c
    return grid, count


def is_dyadic(grid):
    """All offsets and all segment beat lengths are multiples of 1/16 and moderate in size."""
    for i, o in grid:
        if (o * 16).denominator != 1 or abs(o) > 2 ** 40:
            return False
    for k in range(len(grid) - 1):
        b = (grid[k + 1][1] - grid[k][1]) / (grid[k + 1][0] - grid[k][0])
        if (b * 16).denominator != 1 or b < 16 or b > 2 ** 17:
            return False
    return True


def close(a, b, scale):
    return abs(a - b) <= TOL * scale


def judge(ctx, grid, count, dyadic, res, res2):
    """grid: [(idx, Fraction)], res/res2: executor results for first/second application."""
    cls = "dyadic" if dyadic else "general"
    n = len(grid)
    ctx.count()
    wit = {"grid": [[i, dbits(float(o))] for i, o in grid], "count": count, "class": cls}
    trivial = n < 2 or not (grid[0][1] <= 0 or grid[-1][1] >= count)
    if not trivial:
        ctx.nontriv({"g": wit["grid"], "c": count})
    shape = "n=%s" % ("0" if n == 0 else "1" if n == 1 else "2" if n == 2 else "3+")

    def bad(rule, what, site=""):
        ctx.violation(f"{rule} {cls} {site}".strip(), what, wit)

    threw = "exc" in res
    if threw and res.get("nonstd"):
        bad("non-std-exception", "normalize_beatgrid threw a non-std exception")
        return
    if n == 0:
        ctx.bump_in("outcomes", "empty-input")
        if not threw and res["grid"] != []:
            bad("empty-in-nonempty-out", "empty grid normalised to a non-empty grid")
        return
    # the grids the statement allows, under each boundary convention
    has_end_tie = any(o == count for _, o in grid)
    has_start_tie = any(o == 0 for _, o in grid)
    convs = [(True, True)]
    if has_end_tie:
        convs.append((False, True))
    if has_start_tie:
        convs += [(e, False) for e, _ in list(convs)]
    derived = [derive(grid, count, e, st) for e, st in convs]
    valid = [(E, info) for E, info in derived if E is not None]
    if has_end_tie or has_start_tie:
        ctx.bump("boundary_tie_cases")
    if not valid:
        # nothing satisfies the statement: must be rejected with invalid_argument
        ctx.bump_in("outcomes", "must-reject")
        info = derived[0][1]
        if not threw:
            why = "fewer than two markers overlap the track" if info["kept"] < 2 else \
                "relabelling puts an end marker at or past its neighbour"
            site = "kept<2" if info["kept"] < 2 else info.get("why", "?")
            bad("not-rejected", f"un-normalisable grid ({why}) was returned instead of rejected: {res['grid']}", site)
        elif "invalid_argument" not in res.get("is", []):
            bad("rejected-with-wrong-type", f"rejected with {res['exc']} instead of invalid_argument")
        return
    if threw:
        if len(valid) < len(derived):
            # a boundary tie: one reading of the statement says reject
            ctx.bump_in("outcomes", "tie-rejected")
            if "invalid_argument" not in res.get("is", []):
                bad("rejected-with-wrong-type", f"rejected with {res['exc']} instead of invalid_argument")
            return
        ctx.bump_in("outcomes", "must-return")
        bad("valid-grid-rejected", f"normalisable grid rejected with {res['exc']}", shape)
        return
    ctx.bump_in("outcomes", "must-return")
    out = [(i, F(undbits(h))) for i, h in res["grid"]]
    if any(math.isnan(float(o)) or math.isinf(float(o)) for _, o in out):
        bad("P2-not-finite", f"output contains a non-finite offset: {res['grid']}")
        return
    scale = max([abs(o) for _, o in grid] + [F(count), F(1)])
    extrap = max(info["extrap"] for _, info in valid)
    # floating-point allowance: the end markers are extrapolated over `extrap`
    # beats from a beat length that itself carries one rounding of the offsets
    tol = F(0) if dyadic else scale * (1 + extrap) / 2 ** 46
    # P1
    if not out or out[0][0] != -4:
        bad("P1-first-index", f"first output index {out[0][0] if out else None} != -4")
    # P2
    if len(out) < 2 or any(not (out[k][0] < out[k + 1][0] and out[k][1] < out[k + 1][1]) for k in range(len(out) - 1)):
        bad("P2-not-a-grid", f"output is not strictly increasing: {res['grid']}")
        return
    # P3
    last_beat = (out[-1][1] - out[-2][1]) / (out[-1][0] - out[-2][0])
    if not out[-1][1] >= count - tol:
        bad("P3-last-before-end", f"last marker {float(out[-1][1])} lies before the end {count}")
    if not out[-1][1] < count + last_beat + tol:
        bad("P3-last-too-far", f"last marker {float(out[-1][1])} is a beat or more past the end {count}")
    # P4/P5 via the derived grids (tie rule for general doubles at the ceiling)
    cands = []
    for E, info in valid:
        cands.append(E)
        if not dyadic:
            qf = info["q_frac"]
            spbl = info["spb_last"]
            near = F(1, 2 ** 30) + tol / spbl
            if qf < near or qf > 1 - near:
                for d in (-1, 1):
                    alt = E[:-1] + [(E[-1][0] + d, E[-1][1] + d * spbl)]
                    if alt[-1][0] > alt[-2][0]:
                        cands.append(alt)

    def matches(Ex):
        if len(Ex) != len(out):
            return "P5-marker-count"
        for k, ((ei, eo), (oi, oo)) in enumerate(zip(Ex, out)):
            pos = "first" if k == 0 else "last" if k == len(Ex) - 1 else "interior"
            if ei != oi:
                return "P5-index-" + pos if pos == "interior" else "P4-index-" + pos
            if pos == "interior":
                if eo != oo:
                    return "P5-offset-interior"
            elif abs(eo - oo) > tol:
                return "P4-tempo-" + pos
        return None

    fails = [matches(c) for c in cands]
    if all(fails):
        E = valid[0][0]
        bad(fails[0], f"output {[[i, float(o)] for i, o in out][:6]} differs from the grid the statement determines "
                      f"{[[i, float(o)] for i, o in E][:6]}")
    # P6
    if res2 is not None:
        if "exc" in res2:
            bad("P6-second-application-throws", f"normalising the output threw {res2['exc']}")
        else:
            out2 = [(i, F(undbits(h))) for i, h in res2["grid"]]
            same = len(out2) == len(out) and all(
                a[0] == b[0] and abs(a[1] - b[1]) <= tol for a, b in zip(out, out2))
            if not same and not dyadic and len(out2) == len(out):
                # tie at the ceiling: the last marker may move by one beat
                near_tie = abs(out[-1][1] - count) <= tol + last_beat / 2 ** 30 or \
                    abs(out[-1][1] - count - last_beat) <= tol + last_beat / 2 ** 30
                same = near_tie and all(a[0] == b[0] and abs(a[1] - b[1]) <= tol for a, b in zip(out[:-1], out2[:-1])) \
                    and abs(out2[-1][0] - out[-1][0]) <= 1
            if not same:
                bad("P6-not-idempotent", f"second application changed the grid: {res['grid'][:6]} -> {res2['grid'][:6]}")


def derive_cross(grid, count):
    j = next((i for i, (_, o) in enumerate(grid) if o >= count), None)
    kept = grid[:j + 1] if j is not None else list(grid)
    i = next((k for k, (_, o) in enumerate(kept) if o > 0), None)
    if i is None:
        kept = kept[-1:]
    elif i > 0:
        kept = kept[i - 1:]
    if len(kept) >= 3 and kept[1][0] <= -4:
        return "first"
    return "last"


def _run(ctx, items):
    """items: list of (grid, count, dyadic)"""
    batch = 500
    cases, index = [], {}
    for s in range(0, len(items), batch):
        chunk = items[s:s + batch]
        cid = "g%d" % s
        index[cid] = chunk
        its = [{"grid": [[i, dbits(float(o))] for i, o in g], "count": c} for g, c, _ in chunk]
        cases.append({"id": cid, "ops": [{"op": "normalize", "items": its}]})
    second = []

    def on_first(res):
        chunk = index[res.case["id"]]
        if res.crash:
            ctx.violation("op-did-not-complete " + res.crash["kind"] + " at=" + res.crash["site"],
                          "normalize_beatgrid died: " + res.crash["kind"],
                          {"items": res.case["ops"][0]["items"][:20]})
            return
        ev = res.events[0]
        if "exc" in ev:
            ctx.fail_harness("normalize op failed: %s" % ev["exc"])
            return
        for (g, c, d), r in zip(chunk, ev["ret"]):
            second.append((g, c, d, r))

    runner.run_cases(cases, cfg="plain", on_result=on_first)
    # second application on every returned grid
    cases2, index2 = [], {}
    pend = [(k, t) for k, t in enumerate(second) if "grid" in t[3]]
    for s in range(0, len(pend), batch):
        chunk = pend[s:s + batch]
        cid = "h%d" % s
        index2[cid] = chunk
        its = [{"grid": t[3]["grid"], "count": t[1]} for _, t in chunk]
        cases2.append({"id": cid, "ops": [{"op": "normalize", "items": its}]})
    res2 = {}

    def on_second(res):
        chunk = index2[res.case["id"]]
        if res.crash:
            ctx.violation("op-did-not-complete second-application " + res.crash["kind"] + " at=" + res.crash["site"],
                          "normalize_beatgrid died on its own output: " + res.crash["kind"],
                          {"items": res.case["ops"][0]["items"][:20]})
            return
        ev = res.events[0]
        if "exc" in ev:
            ctx.fail_harness("normalize op failed: %s" % ev["exc"])
            return
        for (k, _), r in zip(chunk, ev["ret"]):
            res2[k] = r

    runner.run_cases(cases2, cfg="plain", on_result=on_second)
    for k, (g, c, d, r) in enumerate(second):
        judge(ctx, g, c, d, r, res2.get(k))


def concurrent_stage(ctx):
    """normalize_beatgrid called from four threads at once under the race detector: each thread's answers must equal the
    answers the same inputs get from a single thread (which the main stage judges against the exact reference)."""
    ncase = 4 if ctx.tier == "quick" else 40
    per = 250
    cases = []
    for k in range(ncase):
        lists = []
        for t in range(4):
            lst = []
            while len(lst) < per:
                g, c = gen_grid(ctx.rng, t % 2 == 0)
                if in_domain(g, c):
                    lst.append({"grid": [[i, dbits(float(o))] for i, o in g], "count": c})
            lists.append(lst)
        flat = [it for lst in lists for it in lst]
        cases.append({"id": "mt%d" % k, "no_tz": True, "_n": [len(x) for x in lists],
                      "ops": [{"op": "normalize", "items": flat}, {"op": "mt_normalize", "rounds": 4, "lists": lists}]})

    def on_result(res):
        wit = {"concurrent": True, "threads": 4}
        if res.crash:
            ctx.count()
            ctx.violation("concurrent-calls " + res.crash["kind"] + " at=" + res.crash["site"],
                          "calling normalize_beatgrid from four threads at once: " + res.crash["kind"] + " in " + res.crash["site"] +
                          " :: " + res.crash.get("stderr", "")[:600].replace("\n", " | "), dict(wit, crash=res.crash["kind"]))
            return
        e1, e2 = res.events[0], res.events[1]
        if "exc" in e1 or "exc" in e2:
            ctx.fail_harness("concurrent stage op failed")
            return
        ctx.bump("concurrent_cases")
        single = e1["ret"]
        pos = 0
        for n, out in zip(res.case["_n"], e2["ret"]):
            ctx.count(n)
            ctx.bump("concurrent_calls_judged", n)
            if out != single[pos:pos + n]:
                j = next(i for i in range(n) if out[i] != single[pos + i])
                ctx.violation("concurrent-calls wrong-answer", f"an answer given while other threads were calling normalize_beatgrid differs from the "
                              f"single-threaded answer: {str(out[j])[:120]} vs {str(single[pos + j])[:120]}", wit)
                return
            pos += n

    runner.run_cases(cases, cfg="tsan", on_result=on_result, stall_timeout=300)
    if not ctx.extra.get("concurrent_cases") and not any(k.startswith("concurrent-calls") for k in ctx.viol):
        ctx.fail_harness("the concurrent stage did not run")


def run(ctx):
    n = 60000 if ctx.tier == "quick" else 1500000
    skipped = 0
    done = 0
    chunk = 60000   # generated, run and judged chunk by chunk so that memory stays bounded
    first = True
    while done < n:
        items = []
        while len(items) < min(chunk, n - done):
            dy = ctx.rng.random() < 0.5
            g, c = gen_grid(ctx.rng, dy)
            if not in_domain(g, c):
                skipped += 1
                continue
            items.append((g, c, dy and is_dyadic(g)))
        if first:
            for g, c, d in items[:200]:
                if len(g) >= 2 and len(ctx.samples) < 4:
                    ctx.sample({"grid": [[i, float(o)] for i, o in g[:6]], "markers": len(g), "count": c,
                                "class": "dyadic" if d else "general"})
            first = False
        _run(ctx, items)
        done += len(items)
    ctx.extra["out_of_domain_skipped"] = skipped
    concurrent_stage(ctx)
    ctx.assumptions += ["fractions.Fraction arithmetic on the exact values of the doubles is the reference",
                        "a marker exactly at offset 0 counts as 'at or before the start'; one exactly at the end as 'at or beyond the end'",
                        "inputs whose normalised indices leave +-2^29 are outside the domain"]


def replay(ctx, doc):
    r = doc["replay"]
    if r.get("concurrent"):
        concurrent_stage(ctx)
        return
    if "grid" in r:
        g = [(i, F(undbits(h))) for i, h in r["grid"]]
        _run(ctx, [(g, r["count"], r.get("class") == "dyadic" and is_dyadic(g))])
    else:
        items = [([(i, F(undbits(h))) for i, h in it["grid"]], it["count"], False) for it in r["items"]]
        _run(ctx, items)
