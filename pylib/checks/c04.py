"""C04 - re-encoding a decoded foreign blob preserves every byte (schema 2.x).

 (A) foreign blobs (independent encoder: entry counts 0..20, arbitrary flag bytes, unknown fields non-zero, trailing
     bytes, grids that differ; plus byte-level mutations of valid blobs, kept only if the library accepts them) go
     through from_blob() -> to_blob() in the sanitizer build; the inflated payloads must be identical, except that the
     main-cue-adjusted byte may be normalised from non-zero to 1.
 (B) tracks whose five blob columns were overwritten with foreign blobs (plain SQL UPDATE) go through each
     single-field setter; afterwards every decoded field of every blob other than the targeted one must be unchanged.
"""
import copy

from .. import codec_run, engine_codec as EC, gen_snap as GS, gen_values as G, runner
from ..framework import V2_SCHEMAS

LEVEL = "exploration"
RULE = ("foreign 2.x blobs of the five public blob types carrying at least one thing the library never writes (extra "
        "trailing bytes, flag bytes outside {0,1}, entry counts other than 8, non-zero unknown fields, a maximum point "
        "that is not the maximum, differing default/adjusted grids), plus accepted single-byte mutations of valid "
        "blobs; and setter calls on tracks holding such blobs on the seven 2.x versions; distinct by (kind, bytes)")

COLS = {"trackData": "v2_track_data", "overviewWaveFormData": "v2_overview", "beatData": "v2_beat_data",
        "quickCues": "v2_quick_cues", "loops": "v2_loops"}


def fextra(rng, lo=0):
    """Trailing data: mostly short, now and then as long as a later format revision might append."""
    r = rng.random()
    if r > 0.96:
        return rng.randbytes(rng.choice([255, 256, 257, 1024, 4096, 16384, 65536])).hex()
    return bytes(rng.randrange(256) for _ in range(rng.randrange(lo, 65))).hex()


def fcount(rng, usual):
    """Entry counts: the usual small ones, now and then far more than this library ever writes."""
    return rng.choice([31, 32, 100, 127, 128, 255, 256, 257, 1000]) if rng.random() > 0.95 else rng.choice(usual)


def foreign_value(rng, kind):
    if kind == "v2_track_data":
        v = G.v2_track_data(rng)
        v["extra"] = fextra(rng, 1) if rng.random() < 0.8 else ""
        return v
    if kind == "v2_beat_data":
        v = G.v2_beat_data(rng)
        v["is_set"] = rng.choice([0, 1, 2, 7, 255])
        v["default"] = [[G.rdouble(rng), G.rint64(rng), G.rint32(rng), rng.choice([0, 1, -1, 77, 2 ** 31 - 1])] for _ in range(fcount(rng, range(0, 21)))]
        v["adjusted"] = [[G.rdouble(rng), G.rint64(rng), G.rint32(rng), rng.choice([0, 5, -9])] for _ in range(fcount(rng, range(0, 21)))]
        v["extra"] = fextra(rng)
        if rng.random() < 0.15 and v["default"]:
            # grids that are equal under == but not byte for byte: the same markers, one offset a zero of the other sign
            v["adjusted"] = [list(m) for m in v["default"]]
            k = rng.randrange(len(v["default"]))
            v["default"][k][0] = "0000000000000000"
            v["adjusted"][k][0] = "8000000000000000"
        return v
    if kind == "v2_quick_cues":
        v = G.v2_quick_cues(rng, bool_flag=False)
        v["cues"] = [G.v2_quick_cue(rng) for _ in range(fcount(rng, [0, 1, 3, 7, 8, 9, 12, 20]))]
        v["extra"] = fextra(rng)
        return v
    if kind == "v2_loops":
        v = G.v2_loops(rng)
        v["loops"] = [G.v2_loop(rng) for _ in range(fcount(rng, [0, 1, 3, 8, 9, 20]))]
        v["extra"] = fextra(rng)
        return v
    v = G.v2_overview(rng, big=rng.random() > 0.9)
    v["extra"] = fextra(rng)
    return v


def is_foreign(kind, v):
    if v.get("extra"):
        return True
    if kind == "v2_beat_data":
        return v["is_set"] not in (0, 1) or v["default"] != v["adjusted"] or any(m[3] for m in v["default"] + v["adjusted"])
    if kind == "v2_quick_cues":
        return len(v["cues"]) != 8 or v["is_adjusted"] not in (0, 1)
    if kind == "v2_loops":
        return len(v["loops"]) != 8 or any(l["ss"] not in (0, 1) or l["es"] not in (0, 1) for l in v["loops"])
    if kind == "v2_overview":
        return True
    return False


def expected_payload(kind, blob):
    """The payload a faithful re-encoding must produce; None if the independent codec itself cannot reproduce the blob."""
    try:
        v = EC.DEC[kind](blob)
    except Exception:  # noqa: BLE001
        return None, None
    orig = EC.payload(kind, blob)
    if kind == "v2_overview":
        n = len(bytes.fromhex(v["points"])) // 3
        again = EC.payload(kind, EC.enc_v2_overview(v))
    else:
        again = EC.payload(kind, EC.ENC[kind](v))
    if again != orig:
        return None, v   # the reference codec is not byte-exact on this blob: cannot be judged
    if kind == "v2_quick_cues" and v["is_adjusted"] not in (0, 1):
        w = dict(v, is_adjusted=1)
        return [orig, EC.payload(kind, EC.ENC[kind](w))], v
    return [orig], v


def judge_reencode(ctx, spec, r, crash):
    kind, _fn, hexblob, origin = spec
    blob = bytes.fromhex(hexblob)
    ctx.count()
    ctx.bump_in("reencode_by_kind", kind)
    ctx.bump_in("reencode_by_origin", origin)
    wit = {"kind": kind, "blob": hexblob, "origin": origin}
    if crash:
        ctx.violation(f"crash {kind} {crash['kind']} at={crash['site']}", f"{kind}: from_blob/to_blob died on a foreign blob: {crash['kind']}", wit)
        return
    if "exc" in r:
        ctx.bump_in("rejected_by_decoder", kind)
        if "bytes" not in r and "value" in r:
            ctx.violation(f"reencode-throws {kind}", f"{kind}: from_blob accepted the blob but to_blob threw {r['exc']}", wit)
        return
    exp, v = expected_payload(kind, blob)
    if exp is None:
        ctx.bump_in("not_judged_reference_not_byte_exact", kind)
        return
    try:
        got = EC.payload(kind, bytes.fromhex(r["bytes"]))
    except Exception as e:  # noqa: BLE001
        ctx.violation(f"reencoded-blob-unreadable {kind}", f"{kind}: the re-encoded blob does not inflate: {e}", wit)
        return
    ctx.nontriv(kind + ":" + hexblob[:64] + str(len(hexblob)))
    if got not in exp:
        # locate the first differing byte
        a = exp[0]
        i = next((k for k in range(min(len(a), len(got))) if a[k] != got[k]), min(len(a), len(got)))
        what = "shorter" if len(got) < len(a) else ("longer" if len(got) > len(a) else "same length")
        site = "length" if len(got) != len(a) else "content"
        ctx.violation(f"payload-changed {kind} {site}",
                      f"{kind}: inflate(to_blob(from_blob(b))) differs from inflate(b) at byte {i} of {len(a)} ({what}: {len(got)})", wit)


# ---------------------------------------------------------------- (B) setters over foreign blobs
SETTERS = {
    # op builder, set of (column, field) that may change
    "main_cue": {("quickCues", "adjusted"), ("quickCues", "default"), ("quickCues", "is_adjusted")},
    "hot_cues": {("quickCues", "cues")},
    "hot_cue_at": {("quickCues", "cues")},
    "loops": {("loops", "loops")},
    "loop_at": {("loops", "loops")},
    "beatgrid": {("beatData", "default"), ("beatData", "adjusted"), ("beatData", "is_set")},
    "sample_rate": {("trackData", "sample_rate"), ("beatData", "sample_rate")},
    "sample_count": {("trackData", "samples"), ("beatData", "samples")},
    "key": {("trackData", "key")},
    "average_loudness": {("trackData", "ll"), ("trackData", "lm"), ("trackData", "lh")},
    "waveform": {("overviewWaveFormData", "spp"), ("overviewWaveFormData", "points"), ("overviewWaveFormData", "max")},
    "title": set(), "rating": set(), "bpm": set(), "comment": set(),
}
SELECT = {"op": "raw_exec", "sql": "SELECT trackData, overviewWaveFormData, beatData, quickCues, loops FROM Track WHERE id = 1"}


def build_setter_case(cid, rng, schema):
    from .. import gen_hist as GH
    s = GS.gen_snapshot(rng, schema, rich=True, hostile_sentinels=False)
    s["sample_rate"] = GS.dbits(44100.0)
    s["sample_count"] = rng.randrange(10 ** 5, 10 ** 8)
    foreign = {}
    for col, kind in COLS.items():
        v = foreign_value(rng, kind)
        if kind == "v2_quick_cues" and len(v["cues"]) == 0:
            v["cues"] = [G.v2_quick_cue(rng) for _ in range(3)]
        if kind == "v2_loops" and len(v["loops"]) == 0:
            v["loops"] = [G.v2_loop(rng) for _ in range(3)]
        if kind == "v2_track_data":
            v["sample_rate"] = GS.dbits(48000.0)
            v["samples"] = rng.randrange(10 ** 5, 10 ** 8)
        foreign[col] = v
    blobs = {col: EC.ENC[COLS[col]](foreign[col]) for col in COLS}
    ops = [{"op": "create_temporary", "schema": schema}, {"op": "create_track", "as": "t0", "snap": s},
           {"op": "raw_exec", "sql": "UPDATE Track SET trackData = ?, overviewWaveFormData = ?, beatData = ?, quickCues = ?, loops = ? WHERE id = 1",
            "params": [{"b": blobs[c].hex()} for c in ("trackData", "overviewWaveFormData", "beatData", "quickCues", "loops")]},
           SELECT]
    plan = [None, None, None, ("base",)]
    names = list(SETTERS)
    rng.shuffle(names)
    u = GH.Uniq()
    ncues = len(foreign["quickCues"]["cues"])
    nloops = len(foreign["loops"]["loops"])
    for name in names[: rng.randrange(5, len(names) + 1)]:
        if name == "hot_cue_at":
            op = {"op": "set_at", "t": "t0", "field": "hot_cue", "index": rng.randrange(min(ncues, 8)), "value": GH.slot_value(rng, schema, "hot_cue", u)}
        elif name == "loop_at":
            op = {"op": "set_at", "t": "t0", "field": "loop", "index": rng.randrange(min(nloops, 8)), "value": GH.slot_value(rng, schema, "loop", u)}
        else:
            val, _ = GH.setter_value(rng, schema, name, u)
            if name in ("sample_rate", "sample_count") and (val in (None, 0) or val in GS.ZEROS):
                val = GS.dbits(96000.0) if name == "sample_rate" else 123456
            op = {"op": "set", "t": "t0", "field": name, "value": val}
        ops.append(op)
        plan.append(("setter", name))
        ops.append(SELECT)
        plan.append(("after", name))
        if name == "hot_cues":
            ncues = 8
        if name == "loops":
            nloops = 8
    return {"id": cid, "schema": schema, "ops": ops, "_plan": plan}


def decode_cols(ret):
    row = ret["rows"][0]
    out = {}
    for col, cell in zip(("trackData", "overviewWaveFormData", "beatData", "quickCues", "loops"), row):
        b = bytes.fromhex(cell["b"]) if isinstance(cell, dict) and "b" in cell else b""
        out[col] = (EC.DEC[COLS[col]](b), EC.payload(COLS[col], b))
    return out


def judge_setter_case(ctx, res):
    case = res.case
    schema = case["schema"]
    ops, plan = case["ops"], case["_plan"]
    ctx.bump_in("setter_cases_by_schema", schema)
    wit = {"schema": schema, "ops": ops, "plan": plan}
    if res.crash:
        c = res.crash
        ctx.violation(f"op-did-not-complete {c.get('op')} {c['kind']} at={c['site']}", f"{schema}: {c.get('op')} over foreign blobs died: {c['kind']}", wit)
        return
    prev = None
    threw = False
    for k, ev in enumerate(res.events):
        p = plan[k]
        if not p:
            if "exc" in ev:
                ctx.fail_harness("set-up step failed: %s" % bytes.fromhex(ev["exc"].get("what", "")).decode(errors="replace")[:200])
                return
            continue
        if p[0] == "setter":
            threw = "exc" in ev
            if threw:
                ctx.bump_in("setter_rejections", p[1] + ":" + ev["exc"]["type"])
            continue
        if "exc" in ev:
            ctx.fail_harness("column read failed")
            return
        try:
            cur = decode_cols(ev["ret"])
        except Exception as e:  # noqa: BLE001
            ctx.violation(f"stored-blob-undecodable after-{p[1] if len(p) > 1 else 'base'}", f"{schema}: a blob column no longer decodes: {e}", wit)
            return
        if p[0] == "base":
            prev = cur
            continue
        name = p[1]
        ctx.count()
        ctx.bump_in("setter_calls", name)
        allowed = set() if threw else SETTERS[name]
        for col in COLS:
            dv, pay = cur[col]
            pv, ppay = prev[col]
            if pay == ppay:
                continue
            for f in sorted(set(dv) | set(pv)):
                if col == "quickCues" and f == "is_adjusted" and pv.get(f) and dv.get(f) == 1:
                    continue  # the one normalisation the statement allows: non-zero -> 1
                if dv.get(f) != pv.get(f) and (col, f) not in allowed:
                    ctx.violation(f"setter-alters-foreign-data set_{name} {col}.{f}",
                                  f"{schema}: set_{name} changed {col}.{f} of a blob it should only touch in "
                                  f"{sorted(x[1] for x in allowed if x[0] == col) or 'no field'}: {str(pv.get(f))[:60]} -> {str(dv.get(f))[:60]}", wit)
            if name in ("hot_cue_at", "loop_at") and not threw:
                lf = "cues" if name == "hot_cue_at" else "loops"
                if col == ("quickCues" if lf == "cues" else "loops"):
                    a, b = pv[lf], dv[lf]
                    idx = next(o for o, pl in zip(ops, plan) if pl == ("setter", name))["index"]
                    if len(a) != len(b) or any(x != y for i, (x, y) in enumerate(zip(a, b)) if i != idx):
                        ctx.violation(f"setter-alters-foreign-data set_{name} {col}.other-slots",
                                      f"{schema}: set_{name}({idx}) changed other slots or the slot count ({len(a)} -> {len(b)})", wit)
        prev = cur
    ctx.nontriv({"schema": schema, "ops": ops})


def run(ctx):
    n = 400 if ctx.tier == "quick" else 10000
    specs = []
    valid_blobs = {k: [] for k in EC.V2_KINDS}
    for kind in EC.V2_KINDS:
        for _ in range(n):
            v = foreign_value(ctx.rng, kind)
            if not is_foreign(kind, v):
                continue
            try:
                blob = EC.ENC[kind](v)
            except ValueError:
                continue
            specs.append((kind, "reencode", blob.hex(), "independent-encoder"))
            if len(valid_blobs[kind]) < 8 and len(blob) < 400:
                valid_blobs[kind].append(blob)
    # byte-level mutations of valid blobs at payload level (kept only if the library accepts them)
    for kind, blobs in valid_blobs.items():
        for blob in blobs[:4 if ctx.tier == "quick" else 8]:
            pay = EC.payload(kind, blob)
            for i in range(len(pay)):
                for val in (0x00, 0x01, 0x02, 0xff):
                    if pay[i] == val:
                        continue
                    m = pay[:i] + bytes([val]) + pay[i + 1:]
                    mb = EC.wrap(m) if EC.COMPRESSED[kind] else m
                    specs.append((kind, "reencode", mb.hex(), "payload-mutation"))
            for extra in (b"\x00", b"\x00" * 9, bytes(range(1, 40))):
                m = pay + extra
                specs.append((kind, "reencode", (EC.wrap(m) if EC.COMPRESSED[kind] else m).hex(), "trailing-bytes"))
            # payloads padded with trailing data to the sizes at and around the multiples of the container's 16 KiB working buffer
            # (a foreign blob can have any length; the library's own never land there)
            if blob is blobs[0] or ctx.tier != "quick":
                for size in (16383, 16384, 16385, 32767, 32768, 32769, 49152, 65535, 65536, 65537, 131072, 16384 * 3 + 1):
                    if size > len(pay):
                        fill = ctx.rng.randbytes(size - len(pay)) if size % 3 else bytes(size - len(pay))
                        m = pay + fill
                        specs.append((kind, "reencode", (EC.wrap(m) if EC.COMPRESSED[kind] else m).hex(), "payload-size-ladder"))
            if EC.COMPRESSED[kind]:
                # the 4-byte length in front of the stream is only a hint: foreign blobs whose hint is off (under- or
                # overstated) carry the same payload, with or without trailing data
                import struct as _st
                for p2 in (pay, pay + bytes(range(1, 13))):
                    stream = EC.wrap(p2)[4:]
                    for hint in (len(p2) - 1, len(p2) - 12, len(p2) // 2, 1, len(p2) + 7, 2 * len(p2)):
                        if hint > 0:
                            specs.append((kind, "reencode", (_st.pack(">i", hint) + stream).hex(), "length-hint-off"))
    ctx.sample({"kind": specs[0][0], "blob_prefix": specs[0][2][:80], "origin": specs[0][3]})
    codec_run.run_items("san", specs, lambda sp, r, c: judge_reencode(ctx, sp, r, c), batch=200)
    per = 40 if ctx.tier == "quick" else 1000
    cases = []
    k = 0
    for schema in V2_SCHEMAS:
        for _ in range(per):
            cases.append(build_setter_case("f%d" % k, ctx.rng, schema))
            k += 1
    runner.run_cases(cases, cfg="plain", on_result=lambda r: judge_setter_case(ctx, r))
    ctx.assumptions += ["payloads are inflated by Python's zlib and compared byte for byte; blobs the decoder rejects are out of scope",
                        "the main-cue-adjusted byte may be normalised from non-zero to 1 (the only exception the statement allows)",
                        "a blob the independent codec cannot itself reproduce byte-exactly is counted, not judged"]
    if len(ctx.extra.get("reencode_by_kind", {})) != 5:
        ctx.fail_harness("not all five blob types were exercised")
    if set(ctx.extra.get("setter_cases_by_schema", {})) != set(V2_SCHEMAS):
        ctx.fail_harness("setter cases did not cover all 2.x versions")


def replay(ctx, doc):
    r = doc["replay"]
    if "ops" in r:
        judge_setter_case(ctx, runner.run_one({"id": "replay", "schema": r["schema"], "ops": r["ops"], "_plan": [tuple(x) if x else None for x in r["plan"]]}, cfg="plain"))
    else:
        codec_run.run_items("san", [(r["kind"], "reencode", r["blob"], r["origin"])], lambda sp, res, c: judge_reencode(ctx, sp, res, c))
