"""C05 - decoders are safe and terminate on arbitrary bytes.

Monitors: ASan + UBSan + libstdc++ assertions in the executor; the interposed
inflate() (input window must lie in live memory; call budget as the logical
termination bound); exception type at the call boundary; crash attribution."""
import struct
import zlib

from .. import codec_run, gen_values as G, runner
from ..engine_codec import ENC, KINDS, COMPRESSED, wrap, unwrap, DecodeError, dbits

LEVEL = "exploration"
RULE = ("byte strings fed to zlib_uncompress and the 11 decoders: exhaustive short inputs (raw and as payload behind a "
        "valid container), every truncation and every single-byte substitution (8 values) and insertion/deletion of "
        "valid blobs at container and payload level, ladders on every embedded count/length field and on the length "
        "prefix, and coverage-guided mutation (libFuzzer, thorough); non-trivial = the input reaches a parser (it is a "
        "payload behind a valid container, an uncompressed loops blob, or inflates under an independent zlib) or sits "
        "on a ladder rung; distinct by (entry point, bytes)")

ENTRY = KINDS + ["zlib"]
ALPHA16 = bytes([0x00, 0x01, 0x02, 0x08, 0x10, 0x18, 0x19, 0x21, 0x2c, 0x78, 0x7f, 0x80, 0x9c, 0xda, 0xfe, 0xff]).hex()
LADDER = [-2 ** 63, -2 ** 31, -2, -1, 0, 1, None, 2 ** 31 - 1, 2 ** 31, 2 ** 32, 2 ** 59, 2 ** 61, 2 ** 62, 2 ** 63 - 1]
# None expands to fit-1, fit, fit+1


def summarise(ctx, kind, ret, label, nontrivial_all):
    ctx.count(ret["n"])
    ctx.bump_in("inputs_by_entry", kind, ret["n"])
    ctx.bump_in("inputs_by_family", label, ret["n"])
    ctx.bump("decoded_ok", ret["ok"])
    for t, n in ret["exc"].items():
        ctx.bump_in("exception_types", t, n)
    if nontrivial_all:
        ctx.extra["_nontriv_by_construction"] = ctx.extra.get("_nontriv_by_construction", 0) + ret["n"]
    if "oom_fired" in ret:
        ctx.bump("allocation_failures_injected_and_reached", ret["oom_fired"])
        ctx.bump("values_returned_despite_an_allocation_failure", ret.get("oom_ok", 0))
        for t, n in ret.get("oom_exc", {}).items():
            ctx.bump_in("exception_types_under_allocation_failure", t, n)
    for b in ret["bad"]:
        wit = {"kind": kind, "input": b.get("input"), "family": label}
        if b.get("oom_wrong_value"):
            ctx.violation(f"wrong-value-after-allocation-failure {kind}",
                          f"{kind}: with allocation #{b.get('alloc_failure_at')} inside the decoder failing, it returned a value other than the fault-free one", wit)
        if b.get("outcome") == "nonstd":
            ctx.violation(f"non-std-exception {kind}", f"{kind} decoder threw something not derived from std::exception", wit)
        if b.get("inflate_budget_exceeded"):
            ctx.violation(f"no-termination inflate-loop {kind}",
                          f"{kind}: more than 100000 inflate() calls for one input (decompression loop does not terminate)", wit)
        if b.get("inflate_window_bad"):
            ctx.violation(f"inflate-window-out-of-bounds {kind}",
                          f"{kind}: zlib was handed an input window outside the buffer: {b['inflate_window_bad']}", wit)


def crash_violation(ctx, kind, crash, label):
    w = crash.get("witness") or {}
    wit = {"kind": kind, "input": w.get("hex"), "family": label, "stderr": crash.get("stderr", "")[:1500]}
    if crash["kind"] == "hang":
        ctx.violation(f"no-termination hang {kind} at={crash['site']}", f"{kind}: decoder did not return within the watchdog", wit)
    else:
        ctx.violation(f"crash {kind} {crash['kind']} at={crash['site']}",
                      f"{kind} decoder died on a byte string: {crash['kind']} in {crash['site']}", wit)


def run_ops(ctx, jobs, cfg="san"):
    """jobs: list of (kind, opdict, label, nontrivial_all).  Resumes an op after a death."""
    pending = list(jobs)
    rounds = 0
    while pending and rounds < 400:
        rounds += 1
        cases, index = [], {}
        for n, (kind, op, label, nt) in enumerate(pending):
            cid = "j%d" % n
            index[cid] = (kind, op, label, nt)
            cases.append({"id": cid, "ops": [op]})
        nxt = []

        def on_result(res):
            kind, op, label, nt = index[res.case["id"]]
            if res.crash:
                crash_violation(ctx, kind, res.crash, label)
                ctx.bump("process_deaths")
                w = res.crash.get("witness") or {}
                tag = w.get("tag", "")
                if "#" in tag:
                    seq = int(tag.rsplit("#", 1)[1].split(":")[0])
                    op2 = dict(op)
                    op2["skip"] = seq + 1
                    ctx.count(1)
                    nxt.append((kind, op2, label, nt))
                else:
                    ctx.fail_harness("death without witness in %s" % label)
                return
            ev = res.events[0]
            if "exc" in ev:
                ctx.fail_harness("decode op failed: %s %s" % (ev["exc"]["type"], bytes.fromhex(ev["exc"].get("what", "")).decode(errors="replace")))
                return
            summarise(ctx, kind, ev["ret"], label, nt)

        runner.run_cases(cases, cfg=cfg, on_result=on_result, chunk=1, stall_timeout=90)
        pending = nxt
    if pending:
        ctx.fail_harness("too many process deaths; %d ops unfinished" % len(pending))


# ------------------------------------------------------------------ seeds
def small_values(rng, kind, n):
    vals = []
    tries = 0
    while len(vals) < n and tries < 200:
        tries += 1
        v = G.ENCODABLE[kind](rng)
        if len(str(v)) < 2500:
            vals.append(v)
    return vals


def seed_blobs(ctx, per_kind):
    """Valid blobs per kind: half from the library's encoder, half from the independent encoder."""
    seeds = {k: [] for k in KINDS}
    specs = []
    for kind in KINDS:
        vals = small_values(ctx.rng, kind, per_kind)
        for i, v in enumerate(vals):
            if i % 2 == 0:
                try:
                    seeds[kind].append(ENC[kind](v))
                except Exception:
                    pass
            else:
                specs.append((kind, "encode", v, None))

    def on_item(sp, r, crash):
        if r and "bytes" in r:
            seeds[sp[0]].append(bytes.fromhex(r["bytes"]))

    codec_run.run_items("san", specs, on_item)
    seeds["zlib"] = [wrap(b"hello world" * 3), wrap(bytes(range(256)) * 2), wrap(b""), wrap(b"\0" * 70000)[:400] + b"",
                     wrap(bytes(ctx.rng.randrange(256) for _ in range(300)))]
    return seeds


# ------------------------------------------------------------------ ladders
def ladder_values(fit):
    out = []
    for v in LADDER:
        if v is None:
            out += [fit - 1, fit, fit + 1]
        else:
            out.append(v)
    return out


def p64(v, le=False):
    return struct.pack("<q" if le else ">q", v)


def count_ladder_payloads(kind, rng):
    """Payloads whose embedded count fields take ladder values while the rest stays consistent with `fit` entries."""
    out = []
    d8 = bytes.fromhex(dbits(1.5))
    for fit in (0, 1, 2, 8):
        if kind in ("v2_beat_data", "v1_beat_data"):
            marker = lambda i: struct.pack("<d", 100.0 * i) + struct.pack("<q", i) + struct.pack("<i", 1 if i + 1 < fit else 0) + bytes(4)
            body = b"".join(marker(i) for i in range(fit))
            for c1 in ladder_values(fit):
                for c2 in (fit, c1):
                    p = d8 + d8 + b"\x01" + p64(c1) + body + p64(c2) + body
                    out.append(p)
                    out.append(p + bytes(9))
                # first grid consumes the buffer exactly: no room for the second count
                out.append(d8 + d8 + b"\x01" + p64(c1) + body)
                out.append(d8 + d8 + b"\x01" + p64(fit) + body + p64(c1)[:4])
        elif kind in ("v2_quick_cues", "v1_quick_cues"):
            cue = lambda i: bytes([3]) + b"abc" + struct.pack(">d", 10.0 * i) + bytes([255, 1, 2, 3])
            body = b"".join(cue(i) for i in range(fit))
            tail = d8 + b"\x00" + d8
            for c in ladder_values(fit):
                out.append(p64(c) + body + tail)
                out.append(p64(c) + body)
                out.append(p64(c) + body + tail + b"xx")
        elif kind in ("v2_loops", "v1_loops"):
            lp = lambda i: bytes([2]) + b"lp" + struct.pack("<d", 5.0 * i) + struct.pack("<d", 9.0 * i + 1) + bytes([1, 1, 255, 9, 8, 7])
            body = b"".join(lp(i) for i in range(fit))
            for c in ladder_values(fit):
                out.append(p64(c, True) + body)
                out.append(p64(c, True) + body + b"\x05")
                out.append(p64(c, True) + body + bytes(22))
        elif kind in ("v2_overview", "v1_overview", "v1_high_res"):
            w = 6 if kind == "v1_high_res" else 3
            body = bytes((i * 7) & 255 for i in range(w * fit)) + bytes(w)
            for c1 in ladder_values(fit):
                for c2 in (fit, c1):
                    out.append(p64(c1) + p64(c2) + d8 + body)
                    out.append(p64(c1) + p64(c2) + d8 + body + b"\x01")
                    out.append(p64(c1) + p64(c2) + d8 + body[:-1])
        elif kind in ("v2_track_data", "v1_track_data"):
            n = 44 if kind == "v2_track_data" else 28
            for ln in (0, 1, n - 1, n, n + 1, n + 9, 2 * n):
                out.append(bytes((i * 3) & 255 for i in range(ln)))
    return out


def prefix_ladder_blobs(seed_payloads):
    """Containers whose 4-byte length prefix takes ladder values over a valid stream."""
    out = []
    for p in seed_payloads:
        z = zlib.compress(p)
        for v in (-2 ** 31, -1, 0, 1, len(p) - 1, len(p), len(p) + 1, 2 ** 24, 2 ** 31 - 1):
            out.append(struct.pack(">i", v) + z)
        out.append(struct.pack(">i", len(p)))            # prefix only
        out.append(struct.pack(">i", len(p)) + z[:2])    # header only
        out.append(struct.pack(">i", len(p)) + z + b"trailing-garbage")
        out.append(struct.pack(">i", len(p)) + z + z)
    return out


def many_op(kind, inputs, wrapit):
    return {"op": "decode_many", "kind": kind, "wrap": wrapit, "inputs": [b.hex() for b in inputs]}


def run(ctx):
    quick = ctx.tier == "quick"
    jobs = []
    # (1) exhaustive short inputs
    for kind in ENTRY:
        comp = kind == "zlib" or COMPRESSED[kind]
        for ln in (0, 1, 2):
            jobs.append((kind, {"op": "decode_enum", "kind": kind, "len": ln}, "exhaustive-raw", not comp))
        if comp:
            # a 4-byte input is only a length prefix: enumerate small prefixes (00 xx xx xx); huge ones are on the ladder
            jobs.append((kind, {"op": "decode_enum", "kind": kind, "len": 3, "alphabet": ALPHA16}, "exhaustive-raw-alpha16", False))
            jobs.append((kind, {"op": "decode_enum", "kind": kind, "len": 3, "alphabet": ALPHA16, "prefix": "00"}, "exhaustive-raw-alpha16", False))
            jobs.append((kind, {"op": "decode_enum", "kind": kind, "len": 3, "alphabet": ALPHA16, "prefix": "00", "suffix": "789c"}, "exhaustive-raw-alpha16", False))
        else:
            for ln in (3, 4) if quick else (3, 4, 5):
                jobs.append((kind, {"op": "decode_enum", "kind": kind, "len": ln, "alphabet": ALPHA16}, "exhaustive-raw-alpha16", True))
        if comp and kind != "zlib":
            for ln in (0, 1, 2):
                jobs.append((kind, {"op": "decode_enum", "kind": kind, "len": ln, "wrap": True}, "exhaustive-payload", True))
            jobs.append((kind, {"op": "decode_enum", "kind": kind, "len": 3, "alphabet": ALPHA16, "wrap": True}, "exhaustive-payload-alpha16", True))
        # every 4-byte prefix over the alphabet in front of a fixed valid stream tail
        if comp:
            tail = zlib.compress(b"\x00" * 48).hex()
            jobs.append((kind, {"op": "decode_enum", "kind": kind, "len": 3, "alphabet": ALPHA16, "prefix": "00", "suffix": tail}, "prefix-enum", True))
    ctx.exhaustive = False
    # (2) systematic mutations of valid blobs
    seeds = seed_blobs(ctx, 6 if quick else 16)
    nseeds = 0
    for kind in ENTRY:
        for blob in seeds.get(kind, []):
            if len(blob) > (600 if quick else 3000):
                continue
            nseeds += 1
            modes = ("trunc", "subst", "insert_delete")
            for m in modes:
                comp = kind == "zlib" or COMPRESSED[kind]
                jobs.append((kind, {"op": "decode_mut", "kind": kind, "base": blob.hex(), "mode": m}, "container-" + m, not comp))
            if kind != "zlib" and COMPRESSED[kind]:
                try:
                    pay = unwrap(blob)
                except DecodeError:
                    continue
                for m in modes:
                    jobs.append((kind, {"op": "decode_mut", "kind": kind, "base": pay.hex(), "mode": m, "wrap": True}, "payload-" + m, True))
    ctx.extra["seed_blobs"] = nseeds
    # (3) ladders
    rungs = 0
    for kind in KINDS:
        pays = count_ladder_payloads(kind, ctx.rng)
        rungs += len(pays)
        if COMPRESSED[kind]:
            jobs.append((kind, many_op(kind, pays, True), "count-ladder", True))
            jobs.append((kind, many_op(kind, prefix_ladder_blobs(pays[:4]), False), "length-prefix-ladder", True))
        else:
            jobs.append((kind, many_op(kind, pays, False), "count-ladder", True))
    jobs.append(("zlib", many_op("zlib", prefix_ladder_blobs([b"", b"a", b"abc" * 100, bytes(70000)]), False), "length-prefix-ladder", True))
    ctx.extra["ladder_rungs"] = rungs
    # big inputs up to 64 KiB
    big = []
    for n in (65536, 65535, 40000):
        big.append(wrap(bytes(ctx.rng.randrange(256) for _ in range(n)))[:65536])
        big.append(bytes(ctx.rng.randrange(256) for _ in range(n)))
        big.append(wrap(bytes(n)))
    for kind in ENTRY:
        jobs.append((kind, many_op(kind, big, False), "64KiB", False))
    # valid multi-chunk containers (payloads of 16 KiB .. 100 KiB, noisy and compressible), cut and bent at and around the
    # 16 KiB boundaries of the compressed stream and of the payload
    multi = []
    for n in (16383, 16384, 16385, 32768, 49152, 100000):
        for fill in (bytes(n), ctx.rng.randbytes(n), bytes((i * 7) & 255 for i in range(n))):
            c = wrap(fill)
            multi.append(c)
            cuts = {len(c) - 1, len(c) - 4, len(c) // 2, 5, 6}
            for b in range(16384, len(c) + 2, 16384):
                cuts.update({b - 1, b, b + 1, b + 4, b + 5})
            for k in sorted(x for x in cuts if 4 < x < len(c)):
                multi.append(c[:k])
            for d in (-1, 1, 16384, -16384):
                if n + d >= 0:
                    multi.append(struct.pack(">i", n + d) + c[4:])
            flip = bytearray(c)
            flip[len(c) // 2] ^= 0x40
            multi.append(bytes(flip))
    ctx.extra["multi_chunk_inputs"] = len(multi)
    for kind in ENTRY:
        if kind == "zlib" or COMPRESSED[kind]:
            jobs.append((kind, many_op(kind, multi, False), "multi-chunk", True))
    # structurally valid big blobs of the free-length codecs, truncated the same way
    for kind, payload in (("v1_high_res", p64(6000) + p64(6000) + bytes.fromhex(dbits(512.0)) + ctx.rng.randbytes(6 * 6000) + bytes(6)),
                          ("v2_overview", p64(20000) + p64(20000) + bytes.fromhex(dbits(512.0)) + ctx.rng.randbytes(3 * 20000) + bytes(3)),
                          ("v1_overview", p64(9000) + p64(9000) + bytes.fromhex(dbits(512.0)) + ctx.rng.randbytes(3 * 9000) + bytes(3))):
        c = wrap(payload)
        cuts = [c[:k] for k in sorted({len(c) - 1, len(c) - 7, 16383, 16384, 16385, 16388, 32768, 32769, len(c) // 3} ) if 4 < k < len(c)]
        pcuts = [wrap(payload[:k]) for k in (16384, 16383, 16385, len(payload) - 1, len(payload) - 6, 24, 25)]
        jobs.append((kind, many_op(kind, [c] + cuts + pcuts, False), "multi-chunk-structured", True))
    # memory pressure: every valid seed blob (plus blobs with a large trailing block, and a few broken ones) decoded with the
    # k-th allocation inside the decoder failing, for every k the decoder reaches - the outcome must still be a value or a
    # std::exception (std::bad_alloc is one), never a call to std::terminate
    for kind in ENTRY:
        ins = [b for b in seeds.get(kind, []) if len(b) <= 3000][:4 if quick else 12]
        if kind in ("v2_track_data", "v2_overview", "v2_beat_data", "v2_quick_cues", "v2_loops"):
            for v in small_values(ctx.rng, kind, 2):
                for nx in (1, 4096, 100000):
                    try:
                        ins.append(ENC[kind](dict(v, extra=ctx.rng.randbytes(nx).hex())))
                    except Exception:
                        pass
        ins += [b[:len(b) // 2] for b in ins[:2]] + [wrap(b"\x00" * 20), wrap(ctx.rng.randbytes(5000))]
        jobs.append((kind, dict(many_op(kind, ins, False), oom=400), "allocation-failure-sweep", True))
    ctx.sample({"entry": "v2_quick_cues", "family": "count-ladder", "payload_hex": count_ladder_payloads("v2_quick_cues", ctx.rng)[3].hex()})
    ctx.sample({"entry": "zlib", "family": "length-prefix-ladder", "input_hex": prefix_ladder_blobs([b"abc"])[0].hex()})
    ctx.sample({"entry": "v1_loops", "family": "exhaustive-raw", "op": {"len": 2, "alphabet": "all 256 values"}})
    ctx.assumptions += ["ASan red zones detect only adjacent overflows; every input lives in an exactly-sized heap block",
                        "std::bad_alloc for a single allocation above 128 MiB is a legal outcome",
                        "the logical termination bound is 100000 inflate() calls per input; wall-clock is only a 90 s backstop",
                        "allocation failures are injected at C++ operator new only (zlib's own malloc is not failed)"]
    run_ops(ctx, jobs)
    # small thread stacks: valid blobs of every kind (among them payloads of 64 KiB .. 1 MiB, whose length prefix a decoder might take
    # as a licence for a big local buffer) decoded on a thread with 160 KiB of stack in the plain build and 768 KiB in the sanitizer
    # build (instrumented frames are larger) - the stacks musl and macOS give secondary threads are of that order
    small = []
    bigpay = [wrap(bytes(65536)), wrap(ctx.rng.randbytes(70000)), wrap(bytes(300000)), wrap(ctx.rng.randbytes(1 << 20)), wrap(bytes(65535))]
    for kind in ENTRY:
        ins = [b for b in seeds.get(kind, []) if len(b) <= 3000][:6]
        if kind == "zlib" or COMPRESSED[kind]:
            ins += bigpay
        if kind in ("v2_track_data", "v2_overview", "v2_beat_data", "v2_quick_cues"):
            for v in small_values(ctx.rng, kind, 1):
                for nx in (70000, 1 << 20):
                    try:
                        ins.append(ENC[kind](dict(v, extra=ctx.rng.randbytes(nx).hex())))
                    except Exception:
                        pass
        small.append((kind, ins))
    run_ops(ctx, [(k, dict(many_op(k, ins, False), stack_kb=160), "small-stack-160K", True) for k, ins in small], cfg="plain")
    run_ops(ctx, [(k, dict(many_op(k, ins, False), stack_kb=768), "small-stack-768K", True) for k, ins in small], cfg="san")
    # libFuzzer stage
    from .. import fuzz
    fuzz.run_stage(ctx, seeds)
    # distinct non-trivial: all inputs were distinct by construction within a family
    n = ctx.extra.pop("_nontriv_by_construction", 0)
    for i in range(min(n, 3)):
        ctx.nontriv("by-construction-%d" % i)
    ctx.extra["nontrivial_by_construction"] = n
    ctx._nontrivial_override = n
    if len(ctx.extra.get("inputs_by_entry", {})) < 12:
        ctx.fail_harness("not all 12 entry points were exercised")


def replay(ctx, doc):
    r = doc["replay"]
    if not r.get("input"):
        ctx.fail_harness("replay has no input")
        return
    jobs = [(r["kind"], {"op": "decode_many", "kind": r["kind"], "inputs": [r["input"]]}, "replay", True)]
    run_ops(ctx, jobs)
