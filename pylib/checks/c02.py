"""C02 - written blobs agree with an independent decoder of the Engine format.

Three observation points:
 (a) library encode(v) -> bytes -> independent Python decode == v     (11 codecs)
 (b) independent Python encode(v) -> bytes -> library decode == v     (11 codecs)
 (c) the raw BLOB columns the library stores after create_track()/update(), read back with plain SELECTs,
     decoded by the Python codec and compared with the logical content of the snapshot that was written.
Compressed bytes are never compared, only what they inflate/decode to."""
import copy

from .. import codec_run, engine_codec as EC, gen_snap as GS, gen_values as G, rawread as RR, runner
from ..framework import ALL_SCHEMAS, family, is_v2

LEVEL = "exploration"
RULE = ("values of each of the 11 blob structs (every double class by bit pattern incl. NaN payloads, integer edges, "
        "labels of arbitrary bytes up to 255, 0..12 cues/loops, grids and waveforms of many sizes, arbitrary extra data) "
        "in both directions between the library codec and an independent struct+zlib codec, plus the stored blob "
        "columns of tracks written through create_track/update on all 18 versions; a value is non-trivial when it has "
        ">= 1 list entry or a non-zero double outside {0,1}; distinct by canonical value")


def gen_value(rng, kind, big):
    if kind in ("v2_beat_data", "v2_overview", "v1_beat_data", "v1_high_res", "v1_overview"):
        return G.ENCODABLE[kind](rng, big)
    if kind == "v2_quick_cues":
        return G.v2_quick_cues(rng, bool_flag=True)
    return G.ENCODABLE[kind](rng)


def canon(kind, v):
    """What a faithful decoder returns for an encodable value (reserved -1 slots read back absent)."""
    w = copy.deepcopy(v)
    if kind == "v1_quick_cues":
        w["cues"] = [None if (c is not None and c["off"] == EC.MINUS1) else c for c in w["cues"]]
    if kind == "v1_loops":
        w["loops"] = [None if (c is not None and c["start"] == EC.MINUS1) else c for c in w["loops"]]
    return w


def first_diff(a, b, path=""):
    if isinstance(a, dict) and isinstance(b, dict):
        for k in sorted(set(a) | set(b)):
            if a.get(k) != b.get(k):
                return first_diff(a.get(k), b.get(k), path + "." + k)
    if isinstance(a, list) and isinstance(b, list):
        if len(a) != len(b):
            return path + ".length"
        for x, y in zip(a, b):
            if x != y:
                return first_diff(x, y, path + "[]")
    return path or "."


def judge_lib_encode(ctx, spec, r, crash):
    kind, _fn, v, _tag = spec
    ctx.count()
    ctx.bump_in("direction_lib_to_independent", kind)
    if G.value_is_nontrivial(kind, v):
        ctx.nontriv({"k": kind, "v": v, "d": "a"})
    wit = {"kind": kind, "value": v if len(str(v)) < 100000 else str(v)[:3000], "direction": "library-encode"}
    if crash:
        ctx.violation(f"crash {kind} encode {crash['kind']} at={crash['site']}", f"{kind} encode died: {crash['kind']}", wit)
        return
    if "exc" in r:
        if r.get("big_alloc") or "bad_alloc" in r.get("is", []):
            return
        ctx.violation(f"library-rejects-encodable {kind}", f"{kind}: the library refuses to encode a value of the format's domain ({r['exc']})", wit)
        return
    blob = bytes.fromhex(r["bytes"])
    try:
        got = EC.DEC[kind](blob)
    except Exception as e:  # noqa: BLE001
        ctx.violation(f"independent-decoder-rejects {kind}", f"{kind}: bytes written by the library do not decode under the independent codec: {e}", wit)
        return
    if got != canon(kind, v):
        f = first_diff(canon(kind, v), got)
        ctx.violation(f"layout-disagreement lib-encode {kind} {f}",
                      f"{kind}: the independent decoder reads the library's bytes differently at {f}", wit)


def judge_lib_decode(ctx, spec, r, crash):
    kind, _fn, hexblob, v = spec
    if isinstance(v, dict) and v.get("_damaged"):
        # a damaged blob placed between the valid ones: whatever the decoder does with it (C05 judges that), the valid blobs
        # that follow in the same process must still be read correctly
        ctx.bump_in("damaged_blobs_decoded_between_valid_ones", "refused" if (crash or "exc" in (r or {})) else "accepted")
        return
    ctx.count()
    ctx.bump_in("direction_independent_to_lib", kind)
    if G.value_is_nontrivial(kind, v):
        ctx.nontriv({"k": kind, "v": v, "d": "b"})
    wit = {"kind": kind, "value": v if len(str(v)) < 100000 else str(v)[:3000], "direction": "library-decode", "blob": hexblob[:4000]}
    if crash:
        ctx.violation(f"crash {kind} decode {crash['kind']} at={crash['site']}", f"{kind} decode died: {crash['kind']}", wit)
        return
    if "exc" in r:
        if r.get("big_alloc") or "bad_alloc" in r.get("is", []):
            return
        ctx.violation(f"library-rejects-independent-blob {kind}", f"{kind}: the library refuses a blob written by the independent encoder ({r['exc']})", wit)
        return
    if r["value"] != canon(kind, v):
        f = first_diff(canon(kind, v), r["value"])
        ctx.violation(f"layout-disagreement lib-decode {kind} {f}",
                      f"{kind}: the library reads the independent encoder's bytes differently at {f}", wit)


# ---------------------------------------------------------------- (c) stored blobs
def overview_expected(w_hex, count, rate):
    """1024 (low, mid, high) value triples sampled at (2i+1)/2048 of the input, as documented for the overview."""
    w = bytes.fromhex(w_hex or "")
    n = len(w) // 6
    q = (int(GS.undbits(rate)) // 210) * 2 if rate else 0
    if n == 0 or not count or q == 0:
        return None
    pts = []
    for i in range(1024):
        j = n * (2 * i + 1) // 2048
        pts.append((w[6 * j], w[6 * j + 2], w[6 * j + 4]))
    return pts


def judge_norow(ctx, res):
    case = res.case
    schema = case["schema"]
    field = case["_norow"]
    wit = {"schema": schema, "ops": case["ops"]}
    ctx.bump_in("stored_cases_by_schema", schema)
    if res.crash:
        ctx.violation(f"op-did-not-complete v1 {res.crash.get('op')} {res.crash['kind']}", f"{schema}: {res.crash.get('op')} died", wit)
        return
    ev = res.events
    if len(ev) < 6 or "exc" in ev[1] or "exc" in ev[2]:
        ctx.bump("norow_cases_not_set_up")
        return
    if "exc" in ev[3]:
        ctx.bump_in("norow_setter_rejected", ev[3]["exc"]["type"])
        return
    ctx.count()
    ctx.bump_in("setters_on_tracks_without_performance_row", field)
    rows = RR.table(ev[4]["ret"], "PerformanceData") or []
    if len(rows) != 1:
        ctx.violation(f"stored-row-missing v1 after-setter-on-track-without-row", f"{schema}: {len(rows)} performance-data rows after set_{field} on a track that had none", wit)
        return
    for col, kind in RR.V1_BLOBS.items():
        b = rows[0].get(col)
        try:
            if not isinstance(b, (bytes, bytearray)):
                raise ValueError("no blob (%r)" % (b,))
            EC.DEC[kind](bytes(b))
        except Exception as e:  # noqa: BLE001
            ctx.violation(f"stored-blob-undecodable v1 {col} after-setter-on-track-without-row",
                          f"{schema}: after set_{field} on a track without performance-data row, stored {col} does not decode under the independent codec: {e}", wit)
            return
    ctx.bump("stored_blobs_decoded", 6)
    if "exc" in ev[5]:
        ctx.violation("snapshot-throws v1 after-setter-on-track-without-row", f"{schema}: snapshot() throws {ev[5]['exc']['type']} after set_{field}", wit)


def judge_stored(ctx, res):
    if res.case.get("_norow"):
        return judge_norow(ctx, res)
    case = res.case
    schema = case["schema"]
    fam = family(schema)
    v2 = is_v2(schema)
    snap = case["_snap"]
    ctx.bump_in("stored_cases_by_schema", schema)
    wit = {"schema": schema, "ops": case["ops"]}
    if res.crash:
        ctx.violation(f"op-did-not-complete {fam} {res.crash.get('op')} {res.crash['kind']}", f"{schema}: {res.crash.get('op')} died", wit)
        return
    ev = res.events
    if "exc" in ev[1]:
        ctx.bump_in("stored_write_rejected", ev[1]["exc"]["type"])
        return
    if "exc" in ev[2]:
        ctx.fail_harness("rawdump failed")
        return
    ctx.count()
    dump = ev[2]["ret"]
    rows = RR.table(dump, "Track" if v2 else "PerformanceData") or []
    row = next((r for r in rows if r.get("id") == ev[1]["ret"]), None)
    if row is None:
        ctx.violation(f"stored-row-missing {fam}", f"{schema}: no stored performance data row for the created track", wit)
        return
    kinds = RR.V2_BLOBS if v2 else RR.V1_BLOBS
    dec = {}
    for col, kind in kinds.items():
        b = row.get(col)
        if not isinstance(b, (bytes, bytearray)):
            ctx.violation(f"stored-blob-missing {fam} {col}", f"{schema}: column {col} holds no blob", wit)
            return
        try:
            dec[col] = EC.DEC[kind](bytes(b))
        except Exception as e:  # noqa: BLE001
            ctx.violation(f"stored-blob-undecodable {fam} {col}", f"{schema}: stored {col} does not decode under the independent codec: {e}", wit)
            return
    ctx.bump("stored_blobs_decoded", len(dec))
    Z = GS.dbits(0.0)

    def bad(col, field, got, want):
        ctx.violation(f"stored-content-disagrees {fam} {col}.{field}",
                      f"{schema}: stored {col}.{field} decodes to {str(got)[:80]} but the snapshot written implies {str(want)[:80]}", wit)

    rate = snap.get("sample_rate")
    count = snap.get("sample_count")
    loud = snap.get("average_loudness")
    key = snap.get("key")
    grid = snap.get("beatgrid") or []
    cues = (snap.get("hot_cues") or []) + [None] * (8 - len(snap.get("hot_cues") or []))
    loops = (snap.get("loops") or []) + [None] * (8 - len(snap.get("loops") or []))
    mc = snap.get("main_cue") or Z
    td, bd, qc, lp = dec["trackData"], dec["beatData"], dec["quickCues"], dec["loops"]
    if v2:
        if not GS.deq(td["sample_rate"], rate or Z):
            bad("trackData", "sample_rate", td["sample_rate"], rate)
        if td["samples"] != (count or 0):
            bad("trackData", "samples", td["samples"], count)
        if td["key"] != (key or 0):
            bad("trackData", "key", td["key"], key)
        for f in ("ll", "lm", "lh"):
            if not GS.deq(td[f], loud or Z):
                bad("trackData", f, td[f], loud)
        if not GS.deq(bd["sample_rate"], rate or Z):
            bad("beatData", "sample_rate", bd["sample_rate"], rate)
        if GS.undbits(bd["samples"]) != float(count or 0):
            bad("beatData", "samples", bd["samples"], count)
        for gname in ("default", "adjusted"):
            g = bd[gname]
            if [m[1] for m in g] != [m[0] for m in grid] or any(not GS.deq(a[0], b[1]) for a, b in zip(g, grid)):
                bad("beatData", gname, g[:3], grid[:3])
            else:
                for i, m in enumerate(g):
                    nb = grid[i + 1][0] - grid[i][0] if i + 1 < len(grid) else 0
                    if m[2] != nb:
                        bad("beatData", gname + ".number_of_beats", m[2], nb)
                        break
        if bd["is_set"] != (1 if grid else 0):
            bad("beatData", "is_set", bd["is_set"], 1 if grid else 0)
        if len(qc["cues"]) != 8:
            bad("quickCues", "count", len(qc["cues"]), 8)
        else:
            for i, c in enumerate(cues[:8]):
                g = qc["cues"][i]
                if c is None:
                    if g["off"] != EC.MINUS1:
                        bad("quickCues", "empty-slot", g, None)
                elif g["label"] != c["label"] or not GS.deq(g["off"], c["off"]) or g["color"] != c["color"]:
                    bad("quickCues", "cue", g, c)
        if not GS.deq(qc["adjusted"], mc) or not GS.deq(qc["default"], mc):
            bad("quickCues", "main_cue", (qc["adjusted"], qc["default"]), mc)
        if len(lp["loops"]) != 8:
            bad("loops", "count", len(lp["loops"]), 8)
        else:
            for i, c in enumerate(loops[:8]):
                g = lp["loops"][i]
                if c is None:
                    if g["ss"] or g["es"]:
                        bad("loops", "empty-slot", g, None)
                elif (g["label"] != c["label"] or not GS.deq(g["start"], c["start"]) or not GS.deq(g["end"], c["end"])
                      or g["color"] != c["color"] or g["ss"] != 1 or g["es"] != 1):
                    bad("loops", "loop", g, c)
        ow = dec["overviewWaveFormData"]
        want = overview_expected(snap.get("waveform"), count, rate)
        pts = bytes.fromhex(ow["points"])
        got = [(pts[i], pts[i + 1], pts[i + 2]) for i in range(0, len(pts), 3)]
        if (want or []) != got:
            bad("overviewWaveFormData", "points", got[:3], (want or [])[:3])
    else:
        if td["sample_rate"] is None and rate not in (None,) + GS.ZEROS or (td["sample_rate"] is not None and not GS.deq(td["sample_rate"], rate)):
            bad("trackData", "sample_rate", td["sample_rate"], rate)
        if (td["sample_count"] or 0) != (count or 0):
            bad("trackData", "sample_count", td["sample_count"], count)
        if (td["key"] or 0) != (key or 0):
            bad("trackData", "key", td["key"], key)
        if not GS.deq(td["average_loudness"] or Z, loud or Z):
            bad("trackData", "average_loudness", td["average_loudness"], loud)
        if not GS.deq(bd["sample_rate"] or Z, rate or Z):
            bad("beatData", "sample_rate", bd["sample_rate"], rate)
        if GS.undbits(bd["sample_count"] or Z) != float(count or 0):
            bad("beatData", "sample_count", bd["sample_count"], count)
        for gname in ("default", "adjusted"):
            g = bd[gname]
            if [m[0] for m in g] != [m[0] for m in grid] or any(not GS.deq(a[1], b[1]) for a, b in zip(g, grid)):
                bad("beatData", gname, g[:3], grid[:3])
        if len(qc["cues"]) < 8:
            bad("quickCues", "count", len(qc["cues"]), 8)
        else:
            for i, c in enumerate(cues):
                g = qc["cues"][i] if i < len(qc["cues"]) else None
                if c is None or c["off"] == EC.MINUS1:
                    if g is not None:
                        bad("quickCues", "empty-slot", g, None)
                elif g is None or g["label"] != c["label"] or not GS.deq(g["off"], c["off"]) or g["color"] != c["color"]:
                    bad("quickCues", "cue", g, c)
        if not GS.deq(qc["adjusted"], mc) or not GS.deq(qc["default"], mc):
            bad("quickCues", "main_cue", (qc["adjusted"], qc["default"]), mc)
        for i, c in enumerate(loops):
            g = lp["loops"][i] if i < len(lp["loops"]) else None
            if c is None or c["start"] == EC.MINUS1:
                if g is not None:
                    bad("loops", "empty-slot", g, None)
            elif g is None or g["label"] != c["label"] or not GS.deq(g["start"], c["start"]) or not GS.deq(g["end"], c["end"]) or g["color"] != c["color"]:
                bad("loops", "loop", g, c)
        hr = dec["highResolutionWaveFormData"]
        if hr["waveform"] != (snap.get("waveform") or ""):
            bad("highResolutionWaveFormData", "waveform", hr["waveform"][:24], (snap.get("waveform") or "")[:24])
        ow = dec["overviewWaveFormData"]
        want = overview_expected(snap.get("waveform"), count, rate)
        w = bytes.fromhex(ow["waveform"])
        got = [(w[i], w[i + 2], w[i + 4]) for i in range(0, len(w), 6)]
        if (want or []) != got:
            bad("overviewWaveFormData", "waveform", got[:3], (want or [])[:3])


def run(ctx):
    n = 300 if ctx.tier == "quick" else 9000
    big = ctx.tier != "quick"
    enc_specs, dec_specs = [], []
    for kind in EC.KINDS:
        for i in range(n):
            # one value in 25 is drawn with the large sizes (thousands of markers, tens of thousands of waveform entries) in every tier
            v = gen_value(ctx.rng, kind, i % 25 == 7)
            enc_specs.append((kind, "encode", v, None))
            v2 = gen_value(ctx.rng, kind, i % 25 == 11)
            try:
                blob = EC.ENC[kind](v2)
            except ValueError:
                continue
            dec_specs.append((kind, "decode", blob.hex(), v2))
            if i % 7 == 3 and len(blob) > 8:
                # (what a row cut short by an interrupted sync, or a flipped bit, looks like)
                cut = ctx.rng.choice([len(blob) - 1, len(blob) - 5, len(blob) // 2, 6, 5])
                bad = blob[:cut] if i % 14 == 3 else blob[:len(blob) // 2] + bytes([blob[len(blob) // 2] ^ 0x5a]) + blob[len(blob) // 2 + 1:]
                dec_specs.append((kind, "decode", bad.hex(), {"_damaged": True}))
    # the same containers as foreign writers produce them: other compression levels (stored blocks at level 0), other
    # strategies, smaller windows, several deflate blocks (full flushes) - over payloads that span several 16 KiB buffers
    import zlib as _z
    import struct as _st
    foreign = []
    lowamp = bytes(ctx.rng.choice(b"\x00\x01\x02\x03\x05\x08") for _ in range(70000))
    for payload, pname in ((bytes(40000), "zeros-40000"), (lowamp, "low-amplitude-70000"), (ctx.rng.randbytes(33000), "noise-33000"),
                           (bytes(range(256)) * 130, "ramp-33280"), (lowamp[:16384], "low-amplitude-16384"), (b"abc", "tiny")):
        for level in (0, 1, 6, 9):
            for strat, sname in ((_z.Z_DEFAULT_STRATEGY, "default"), (_z.Z_FILTERED, "filtered"), (_z.Z_HUFFMAN_ONLY, "huffman"),
                                 (_z.Z_RLE, "rle"), (_z.Z_FIXED, "fixed")):
                if level != 6 and strat != _z.Z_DEFAULT_STRATEGY:
                    continue
                for wbits in ((15, 9) if strat == _z.Z_DEFAULT_STRATEGY and level == 6 else (15,)):
                    co = _z.compressobj(level, _z.DEFLATED, wbits, 8, strat)
                    stream = co.compress(payload) + co.flush()
                    foreign.append(("zlib", "decode", (_st.pack(">i", len(payload)) + stream).hex(), (payload.hex(), "%s level=%d %s wbits=%d" % (pname, level, sname, wbits))))
        co = _z.compressobj(6)
        stream = b"".join(co.compress(payload[i:i + 5000]) + co.flush(_z.Z_FULL_FLUSH) for i in range(0, len(payload), 5000)) + co.flush()
        foreign.append(("zlib", "decode", (_st.pack(">i", len(payload)) + stream).hex(), (payload.hex(), "%s full-flush every 5000" % pname)))

    def judge_foreign(sp, r, crash):
        ctx.count()
        ctx.bump("foreign_zlib_streams")
        tag = sp[3][1]
        ctx.bump_in("foreign_zlib_settings", tag.split(" ", 1)[1])
        wit = {"kind": "zlib-foreign", "what": tag, "blob_prefix": sp[2][:64]}
        if crash:
            ctx.violation(f"crash zlib foreign-stream {crash['kind']}", f"decoding a foreign container ({tag}) died: {crash['kind']}", wit)
        elif "exc" in r:
            ctx.violation(f"foreign-zlib-stream-rejected {tag.split(' ', 1)[1]}", f"the library refuses a valid container ({tag}): {r['exc']}", wit)
        elif r.get("value") != sp[3][0]:
            ctx.violation(f"foreign-zlib-stream-misdecoded {tag.split(' ', 1)[1]}", f"the library decodes a valid container ({tag}) to different bytes", wit)

    codec_run.run_items("san", foreign, judge_foreign, batch=6)
    ctx.sample({"kind": enc_specs[0][0], "value": str(enc_specs[0][2])[:300]})
    codec_run.run_items("san", enc_specs, lambda sp, r, c: judge_lib_encode(ctx, sp, r, c), batch=60)
    codec_run.run_items("san", dec_specs, lambda sp, r, c: judge_lib_decode(ctx, sp, r, c), batch=60)
    # (c) stored blobs
    per = 20 if ctx.tier == "quick" else 600
    cases = []
    k = 0
    for schema in ALL_SCHEMAS:
        for i in range(per):
            s = GS.gen_snapshot(ctx.rng, schema, rich=True, hostile_sentinels=False, borderline=False, big=(i % 10 == 7))
            upd = i % 3 == 2
            ops = [{"op": "create_temporary", "schema": schema}]
            if upd:
                ops = [{"op": "create_temporary", "schema": schema},
                       {"op": "create_track", "as": "t0", "snap": s},
                       {"op": "rawdump", "checks": False, "views": ["PerformanceData"]}]
            else:
                ops += [{"op": "create_track", "as": "t0", "snap": s}, {"op": "rawdump", "checks": False, "views": ["PerformanceData"]}]
            cases.append({"id": "s%d" % k, "schema": schema, "ops": ops, "_snap": s})
            k += 1
            if not is_v2(schema) and i % 4 == 1:
                # a 1.x track that has no performance-data row (a foreign writer leaves it so until the track is analysed),
                # then one single-field performance setter: the row the library then inserts must hold six decodable blobs
                from .. import gen_hist as GH
                u = GH.Uniq()
                field = ["hot_cues", "loops", "beatgrid", "sample_rate", "sample_count", "key", "average_loudness", "main_cue"][(i // 4) % 8]
                val, _exc = GH.setter_value(ctx.rng, schema, field, u)
                if field in ("hot_cues", "loops") and not any(x is not None for x in (val or [])):
                    val = [GH.slot_value(ctx.rng, schema, "hot_cue" if field == "hot_cues" else "loop", u)] + [None] * 7
                ops2 = [{"op": "create_temporary", "schema": schema}, {"op": "create_track", "as": "t0", "snap": s},
                        {"op": "raw_exec", "sql": "DELETE FROM PerformanceData"},
                        {"op": "set", "t": "t0", "field": field, "value": val},
                        {"op": "rawdump", "checks": False, "views": ["PerformanceData"]}, {"op": "snapshot", "t": "t0"}]
                cases.append({"id": "s%d" % k, "schema": schema, "ops": ops2, "_snap": s, "_norow": field})
                k += 1
    runner.run_cases(cases, cfg="plain", on_result=lambda r: judge_stored(ctx, r))
    ctx.assumptions += ["the Python codec (pylib/engine_codec.py) is written from the layout, not from the C++; it is pinned to the "
                        "format as the pinned commit writes well-formed values", "compressed bytes are never compared",
                        "stored-content expectations: sentinel 0 for absent rate/count/loudness/key/main cue, eight padded cue "
                        "and loop slots, 2.x number_of_beats = index difference, overview = 1024 points sampled at (2i+1)/2048"]
    if len(ctx.extra.get("direction_lib_to_independent", {})) != 11 or len(ctx.extra.get("direction_independent_to_lib", {})) != 11:
        ctx.fail_harness("not all 11 codecs were exercised in both directions")
    if set(ctx.extra.get("stored_cases_by_schema", {})) != set(ALL_SCHEMAS):
        ctx.fail_harness("stored-blob comparison did not cover all versions")


def replay(ctx, doc):
    r = doc["replay"]
    if r.get("kind") == "zlib-foreign":
        run(ctx)   # the foreign containers are rebuilt from the seed; the whole (short) check is the replay
        return
    if "ops" in r:
        ops = r["ops"]
        snap = next(o["snap"] for o in ops if o["op"] == "create_track")
        judge_stored(ctx, runner.run_one({"id": "replay", "schema": r["schema"], "ops": ops, "_snap": snap}, cfg="plain"))
    elif r["direction"] == "library-encode":
        codec_run.run_items("san", [(r["kind"], "encode", r["value"], None)], lambda sp, res, c: judge_lib_encode(ctx, sp, res, c))
    else:
        blob = EC.ENC[r["kind"]](r["value"]).hex()
        codec_run.run_items("san", [(r["kind"], "decode", blob, r["value"])], lambda sp, res, c: judge_lib_decode(ctx, sp, res, c))
