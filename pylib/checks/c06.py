"""C06 - getters return what setters stored and setters touch only their field.

After every single-field setter call the whole public view of every track
(all getters, per-slot getters, snapshot()) is observed.  The oracle keeps the
previous observation and demands: the set field now reads N(value) through its
getter and through snapshot(); getter == snapshot field for every field; and
every other field of that track and everything about every other track is
unchanged (file name and extension follow the relative path).  A setter that
throws must leave everything unchanged, and may throw only for values the
format cannot hold.
"""
import copy

from .. import gen_hist as GH, gen_snap as GS, runner
from ..framework import ALL_SCHEMAS, family, is_v2

LEVEL = "exploration"
RULE = ("histories of 20-40 single-field setter calls (all 24 field setters plus set_hot_cue_at/set_loop_at at every "
        "index 0..7, optional-clearing calls, values from the C01 pools, sequences biased toward storage-coupled pairs) "
        "over 2-3 tracks created from rich snapshots, on all 18 schema versions, observed after every step; a history "
        "is non-trivial when >= 6 distinct fields including a blob-backed one were set; distinct by canonical history")

OBS = {"op": "observe_all", "crates": False}


OBS_B = {"op": "observe_all_b", "snapshots": True}


def interleave(ops, twin=False):
    out, index = [], []
    for i, op in enumerate(ops):
        out.append(op)
        index.append(i)
        if op["op"] != "create_temporary":
            out.append(OBS)
            index.append(None)
            if twin and not op.get("lib"):
                # the second library, open in the same process, is looked at after every step on the first
                out.append(OBS_B)
                index.append(None)
    return out, index


def contains_sentinel(schema, field, value):
    v2 = is_v2(schema)
    if v2:
        return False
    if field in ("hot_cues", "hot_cue") and value:
        items = value if isinstance(value, list) else [value]
        return any(c is not None and c["off"] == GS.MINUS1 for c in items)
    if field in ("loops", "loop") and value:
        items = value if isinstance(value, list) else [value]
        return any(c is not None and c["start"] == GS.MINUS1 for c in items)
    return False


def basename(path_hex):
    p = bytes.fromhex(path_hex)
    return p.rsplit(b"/", 1)[-1]


def ext_of(name):
    # extension without the dot, empty if none (djinterop::util::get_file_extension)
    if b"." not in name:
        return b""
    return name.rsplit(b".", 1)[1]


def expect_after(schema, prev_track, meta, new_track):
    """Expected observation of the targeted track after a successful setter; returns (expected, loose_fields)."""
    exp = copy.deepcopy(prev_track)
    loose = set()
    if meta["kind"] == "set":
        f, val = meta["field"], meta["value"]
        nval = GS.normalise(schema, {f: val})[0][f]
        if f == "waveform" and is_v2(schema):
            loose.add("waveform")
            nval = new_track["get"].get("waveform")
        exp["get"][f] = nval
        if isinstance(exp.get("snapshot"), dict) and "exc" not in exp["snapshot"]:
            exp["snapshot"][f] = nval
        if f == "hot_cues":
            exp["get"]["hot_cue_at"] = list(nval[:8])
        if f == "loops":
            exp["get"]["loop_at"] = list(nval[:8])
        if f == "relative_path":
            name = basename(val)
            exp["get"]["filename"] = name.hex()
            exp["get"]["file_extension"] = ext_of(name).hex()
    else:
        which, idx, val = meta["field"], meta["index"], meta["value"]
        lf = "hot_cues" if which == "hot_cue" else "loops"
        nslot = GS.normalise(schema, {lf: [val]})[0][lf][0]
        for holder in (exp["get"], exp.get("snapshot") if isinstance(exp.get("snapshot"), dict) else None):
            if holder is None or "exc" in holder:
                continue
            lst = list(holder[lf])
            if idx < len(lst):
                lst[idx] = nslot
            holder[lf] = lst
        at = "hot_cue_at" if which == "hot_cue" else "loop_at"
        lst = list(exp["get"][at])
        lst[idx] = nslot
        exp["get"][at] = lst
    return exp, loose


def eq_field(f, a, b):
    if isinstance(a, dict) and "exc" in a or isinstance(b, dict) and "exc" in b:
        return a == b
    if f in ("hot_cue_at",):
        f = "hot_cues"
    if f in ("loop_at",):
        f = "loops"
    try:
        return GS.field_equal(f, a, b)
    except Exception:
        return a == b


def diff_track(exp, got):
    """List of (where, field) differences between two track observations."""
    out = []
    for f in sorted(set(exp["get"]) | set(got["get"])):
        if not eq_field(f, exp["get"].get(f), got["get"].get(f)):
            out.append(("getter", f))
    es, gs = exp.get("snapshot"), got.get("snapshot")
    if isinstance(es, dict) and isinstance(gs, dict) and "exc" not in es and "exc" not in gs:
        for f in GS.ALL_FIELDS:
            if not eq_field(f, es.get(f), gs.get(f)):
                out.append(("snapshot", f))
    elif es != gs:
        out.append(("snapshot", "*throws*"))
    return out


def make_shared_case(cid, rng, schema, n_tracks, n_ops):
    """One on-disk library opened twice in the same process (two database objects on one directory): setters go through
    either of them, and after every step both must give the same answers."""
    d = "@W/" + cid
    ops = [{"op": "create", "schema": schema, "dir": d}]
    for t in range(n_tracks):
        sn = GS.gen_snapshot(rng, schema, rich=True, hostile_sentinels=False)
        sn.setdefault("sample_rate", GS.dbits(44100.0))
        sn.setdefault("sample_count", rng.randrange(10 ** 5, 10 ** 8))
        ops.append({"op": "create_track", "as": "t%d" % t, "snap": sn, "bind": "id%d" % t})
    ops.append({"op": "load", "dir": d, "lib": 1})
    for t in range(n_tracks):
        ops.append({"op": "track_by_id", "id": "$id%d" % t, "as": "t%d" % t, "lib": 1})
    ops += [dict(OBS), dict(OBS_B)]
    u = GH.Uniq()
    steps = []
    for k in range(n_ops):
        th = "t%d" % rng.randrange(n_tracks)
        field = rng.choice([f for f in GH.SETTER_FIELDS if f != "waveform"] + ["relative_path", "relative_path", "title"])
        val, _exc = GH.setter_value(rng, schema, field, u)
        op = {"op": "set", "t": th, "field": field, "value": val}
        if rng.random() < 0.5:
            op["lib"] = 1
        steps.append(len(ops))
        ops += [op, dict(OBS), dict(OBS_B)]
    return {"id": cid, "schema": schema, "ops": ops, "_shared": steps, "_metas": [], "_index": []}


def judge_shared(ctx, res):
    case = res.case
    schema = case["schema"]
    fam = family(schema)
    ops = case["ops"]
    ctx.bump_in("cases_by_schema", schema)
    ctx.bump("shared_directory_cases")
    wit = {"schema": schema, "ops": [o for o in ops if not o["op"].startswith("observe_all")]}
    if res.crash:
        c = res.crash
        ctx.violation(f"op-did-not-complete {fam} {c.get('op')} shared-directory {c['kind']} at={c['site']}",
                      f"{schema}: {c.get('op')} did not complete with the library opened twice: {c['kind']}", dict(wit, crash=c["kind"]))
        return
    evs = res.events
    first = case["_shared"][0] if case["_shared"] else len(ops)
    if any("exc" in e for e in evs[:first]):
        ctx.fail_harness("shared-directory set-up failed: %s" % [e["exc"]["type"] for e in evs[:first] if "exc" in e][:1])
        return
    from .c10 import diff_paths, generic_site
    for k in case["_shared"]:
        if k + 2 >= len(evs):
            break
        op, a, b = ops[k], evs[k + 1], evs[k + 2]
        ctx.count()
        if "exc" in a or "exc" in b:
            ctx.fail_harness("observation failed in a shared-directory case")
            return
        ctx.bump_in("shared_directory_setters_through", "second database object" if op.get("lib") else "first database object")
        ta, tb = a["ret"].get("tracks"), b["ret"].get("tracks")
        stale = a["ret"].get("held_handles_disagree") or b["ret"].get("held_handles_disagree")
        ctx.bump("held_handle_comparisons", a["ret"].get("held_handles_compared", 0) + b["ret"].get("held_handles_compared", 0))
        if stale:
            ctx.violation(f"held-handle-stale {fam} {op['field']} {','.join(stale[0]['fields'][:3])}",
                          f"{schema}: after set_{op['field']} through the {'second' if op.get('lib') else 'first'} of two database objects opened "
                          f"on one directory, a track handle held since before answers differently from a fresh one: {stale[:2]}", wit)
            return
        if ta != tb:
            where = diff_paths(ta, tb)
            ctx.violation(f"database-objects-disagree {fam} {op['field']} {generic_site(where[0]) if where else ''}",
                          f"{schema}: after set_{op['field']} through the {'second' if op.get('lib') else 'first'} of two database objects "
                          f"opened on one directory, the two disagree at {where[:3]}", wit)
            return


def judge_case(ctx, res):
    if res.case.get("_shared") is not None:
        return judge_shared(ctx, res)
    case = res.case
    schema = case["schema"]
    fam = family(schema)
    ops, metas, index = case["ops"], case["_metas"], case["_index"]
    ctx.bump_in("cases_by_schema", schema)
    wit = {"schema": schema, "ops": [o for o in ops if not o["op"].startswith("observe_all")]}
    if res.crash:
        c = res.crash
        if c["op_index"] < 0:
            ctx.fail_harness("executor died outside any op: %s" % c["kind"])
            return
        m = metas[index[c["op_index"]]] if index[c["op_index"]] is not None else None
        site = (m or {}).get("field", c.get("op"))
        ctx.violation(f"op-did-not-complete {fam} {c.get('op')} {site} {c['kind']} at={c['site']}",
                      f"{schema}: {c.get('op')}({site}) did not complete: {c['kind']} in {c['site']}", dict(wit, crash=c["kind"]))
        return
    evs = res.events
    if case.get("_twin"):
        ctx.bump("twin_library_cases")
        first = None
        for k, ev in enumerate(evs):
            if ops[k]["op"] != "observe_all_b":
                continue
            if "exc" in ev:
                ctx.fail_harness("observe_all_b failed: %s" % ev["exc"]["type"])
                return
            ctx.bump("twin_library_observations")
            if first is None:
                first = ev["ret"]
                if not (first.get("tracks") or {}):
                    ctx.fail_harness("the second library has no tracks")
                    return
            elif ev["ret"] != first:
                from .c10 import diff_paths, generic_site
                where = diff_paths(first, ev["ret"])
                j = k
                while j > 0 and (ops[j]["op"].startswith("observe") or ops[j].get("lib")):
                    j -= 1
                ctx.violation(f"setter-touches-other-library {fam} {ops[j].get('field', ops[j]['op'])} {generic_site(where[0]) if where else ''}",
                              f"{schema}: after {ops[j]['op']}({ops[j].get('field')}) on one library, a second library open in the same process "
                              f"answers differently at {where[:3]}", wit)
                break
    prev = None       # previous tracks observation: id -> track obs
    handles = {}      # handle -> id
    set_fields = set()
    ever_set = {}     # (track id, field) -> True once set through a setter
    for k, ev in enumerate(evs):
        op = ops[k]
        if op["op"] != "observe_all":
            continue
        if "exc" in ev:
            ctx.fail_harness("observe_all failed: %s" % ev["exc"]["type"])
            return
        obs = ev["ret"]
        ctx.bump("held_handle_comparisons", obs.get("held_handles_compared", 0))
        if obs.get("held_handles_disagree"):
            ctx.violation(f"held-handle-stale {fam} {','.join(obs['held_handles_disagree'][0]['fields'][:3])}",
                          f"{schema}: a track handle held since earlier answers differently from one obtained now: {obs['held_handles_disagree'][:2]}", wit)
            return
        tracks = obs.get("tracks") or {}
        for h, x in (obs.get("track_handles") or {}).items():
            handles[h] = str(x["id"])
        ctx.bump("observations")
        src = index[k - 1]
        meta = metas[src] if src is not None else None
        act = evs[k - 1]
        # getter == snapshot for every field of every track, always
        for tid, t in tracks.items():
            sn = t.get("snapshot")
            if not isinstance(sn, dict) or "exc" in sn:
                ctx.violation(f"snapshot-throws {fam}", f"{schema}: snapshot() throws on a live track after "
                              f"{ops[k-1]['op']}({(meta or {}).get('field')})", wit)
                continue
            for f in GS.ALL_FIELDS:
                if f == "file_bytes":
                    continue
                g = t["get"].get(f)
                if not eq_field(f, g, sn.get(f)):
                    state = "after-set" if ever_set.get((tid, f)) else "never-set"
                    ctx.violation(f"getter-snapshot-disagree {fam} {f} {state}",
                                  f"{schema}: {f}() = {str(g)[:100]} but snapshot().{f} = {str(sn.get(f))[:100]} "
                                  f"({state} through a setter)", wit)
            for i in range(8):
                for at, lf in (("hot_cue_at", "hot_cues"), ("loop_at", "loops")):
                    lst = t["get"].get(lf)
                    if isinstance(lst, list) and i < len(lst):
                        if not eq_field(lf, [t["get"][at][i]], [lst[i]]):
                            ctx.violation(f"getter-slot-disagree {fam} {at}",
                                          f"{schema}: {at}({i}) differs from {lf}()[{i}]", wit)
        if meta is None or meta["kind"] == "create" or prev is None:
            prev = tracks
            continue
        ctx.count()
        tid = handles.get(meta["t"])
        fname = meta["field"] if meta["kind"] == "set" else meta["field"] + "_at"
        ctx.bump_in("setter_calls", fname)
        set_fields.add(fname)
        if "exc" in act:
            x = act["exc"]
            ctx.bump_in("setter_rejections", fname + ":" + x["type"])
            if not x.get("std", True):
                ctx.violation(f"non-std-exception {fam} {fname}", f"setter {fname} threw a non-std exception", wit)
            excus = meta.get("excusable") or contains_sentinel(schema, meta["field"], meta["value"])
            if not excus:
                what = bytes.fromhex(x.get("what", "")).decode(errors="replace")[:160]
                vdesc = "key=%s" % meta["value"] if meta["field"] == "key" else fname
                site = f"{fname}" + (f" value={meta['value']}" if meta["field"] == "key" else "")
                ctx.violation(f"setter-rejects-valid-value {fam} {site}",
                              f"{schema}: set_{fname}({str(meta['value'])[:80]}) throws {x['type']}: {what}", wit)
            # a throwing setter must change nothing
            for t2, told in prev.items():
                if t2 in tracks:
                    for where, f in diff_track(told, tracks[t2]):
                        ctx.violation(f"throwing-setter-has-effect {fam} {fname} {where}.{f}",
                                      f"{schema}: set_{fname} threw but {where} {f} changed", wit)
            prev = tracks
            continue
        if tid is None or tid not in tracks or tid not in prev:
            ctx.fail_harness("target track missing from observation")
            return
        ctx.state("distinct_setter_value_pairs", fname + "=" + str(meta.get("value"))[:200])
        exp, loose = expect_after(schema, prev[tid], meta, tracks[tid])
        target_field = meta["field"] if meta["kind"] == "set" else ("hot_cues" if meta["field"] == "hot_cue" else "loops")
        ever_set[(tid, target_field)] = True
        for where, f in diff_track(exp, tracks[tid]):
            base = {"hot_cue_at": "hot_cues", "loop_at": "loops"}.get(f, f)
            if base == target_field or (target_field == "relative_path" and f in ("filename", "file_extension")):
                ctx.violation(f"getter-after-set {fam} {fname} {where}.{f}",
                              f"{schema}: after set_{fname}({str(meta['value'])[:80]}) the {where} {f} is "
                              f"{str((tracks[tid]['get'] if where == 'getter' else tracks[tid]['snapshot']).get(f))[:100]}, "
                              f"expected {str((exp['get'] if where == 'getter' else exp['snapshot']).get(f))[:100]}", wit)
            else:
                ctx.violation(f"setter-touches-other-field {fam} {fname} {where}.{f}",
                              f"{schema}: set_{fname} changed {where} {f} of the same track", wit)
        if "waveform" in loose:
            got_w = tracks[tid]["get"].get("waveform")
            if not GS.waveform_subsequence_ok(meta["value"], got_w):
                ctx.violation(f"getter-after-set {fam} waveform getter.waveform",
                              f"{schema}: waveform() after set_waveform is not a resampling of the input", wit)
        for t2, told in prev.items():
            if t2 == tid:
                continue
            if t2 not in tracks:
                ctx.violation(f"setter-touches-other-track {fam} {fname} track-vanished", "another track vanished", wit)
                continue
            for where, f in diff_track(told, tracks[t2]):
                ctx.violation(f"setter-touches-other-track {fam} {fname} {where}.{f}",
                              f"{schema}: set_{fname} on one track changed {where} {f} of another track", wit)
        prev = tracks
    blob = bool(set_fields & (GS.BLOB_FIELDS | {"hot_cue_at", "loop_at"}))
    if len(set_fields) >= 6 and blob:
        ctx.nontriv({"schema": schema, "ops": wit["ops"]})


def make_case(cid, rng, schema, n_tracks, n_ops, first_id=None, twin=False, no_perf_row=False, foreign_flags=False):
    ops, metas = GH.gen_setter_history(rng, schema, n_tracks, n_ops, first_id=first_id, no_perf_row=no_perf_row, foreign_flags=foreign_flags)
    if twin:
        # a second library of the same version with as many tracks (so that the track ids coincide), created right after
        # the first and never touched again
        pre = [{"op": "create_temporary", "schema": schema, "lib": 1}]
        for t in range(n_tracks):
            sn = GS.gen_snapshot(rng, schema, rich=True, hostile_sentinels=False)
            pre.append({"op": "create_track", "as": "b%d" % t, "snap": sn, "lib": 1})
        ops[1:1] = pre
        metas[1:1] = [None] * len(pre)
    full, index = interleave(ops, twin)
    return {"id": cid, "schema": schema, "ops": full, "_metas": metas, "_index": index, "_twin": twin}


def run(ctx):
    per = 12 if ctx.tier == "quick" else 400
    cases = []
    n = 0
    for schema in ALL_SCHEMAS:
        for k in range(per):
            # one history in six runs with the ids of a long-lived library (around 2^31 / 2^32 / 2^53)
            first = GH.FIRST_IDS[(k // 6) % len(GH.FIRST_IDS)] if k % 6 == 4 else None
            if first:
                ctx.bump_in("histories_with_first_id", str(first))
            # on 1.x one history in four starts with a track that has no performance-data row (imported by Engine, not analysed)
            norow = (k % 4 == 3) and not is_v2(schema)
            if norow:
                ctx.bump("histories_with_a_track_without_performance_row")
            # one history in three works on tracks whose Engine-only columns (grid lock, play state, import markers) are set
            ff = k % 3 == 2
            if ff:
                ctx.bump("histories_on_tracks_with_engine_only_columns_set")
            cases.append(make_case("c%d" % n, ctx.rng, schema, 2 + (k % 2), 20 + (k % 3) * 10, first, twin=(k % 6 == 1), no_perf_row=norow,
                                   foreign_flags=ff))
            n += 1
        # many tracks side by side (row ids with more than one digit): the frame condition is then judged over 13-40 bystanders
        for k in range(1 if ctx.tier == "quick" else 12):
            nt = 13 if ctx.tier == "quick" else ctx.rng.choice([11, 13, 21, 40])
            cases.append(make_case("c%d" % n, ctx.rng, schema, nt, 36))
            ctx.bump_in("tracks_per_history", str(nt))
            n += 1
    for schema in ALL_SCHEMAS:
        for k in range(2 if ctx.tier == "quick" else 40):
            cases.append(make_shared_case("sh%d" % n, ctx.rng, schema, 2 + k % 2, 14))
            n += 1
    c0 = cases[0]
    ctx.sample({"schema": c0["schema"], "setter_sequence": [(m["field"], str(m.get("value"))[:40]) for m in c0["_metas"] if m and m["kind"] != "create"][:12]})
    ctx.assumptions += [
        "expected value of a set field = the C01 normalisation of the value; initial state adopted from the first observation",
        "a setter may throw only for a value equal to an 'absent' sentinel (sample rate/count 0, 1.x cue/loop offset -1)",
        "2.x waveform: getter must be an opaque resampling of the input (frame condition still exact)",
        "indices 0..7 only; waveform setters only while sample rate and count are present (out-of-contract calls are C15's)"]
    runner.run_cases(cases, cfg="plain", on_result=lambda r: judge_case(ctx, r))
    seen = set(ctx.extra.get("cases_by_schema", {}))
    if seen != set(ALL_SCHEMAS):
        ctx.fail_harness("schema versions not covered: %s" % sorted(set(ALL_SCHEMAS) - seen))
    missing = set(GH.SETTER_FIELDS + ["hot_cue_at", "loop_at"]) - set(ctx.extra.get("setter_calls", {}))
    if missing:
        ctx.fail_harness("setters never exercised: %s" % sorted(missing))


def replay(ctx, doc):
    r = doc["replay"]
    ops = r["ops"]
    # rebuild metas from the ops
    metas = []
    for op in ops:
        if op.get("lib"):
            metas.append(None)
        elif op["op"] == "create_track":
            metas.append({"kind": "create", "t": op["as"]})
        elif op["op"] == "set":
            metas.append({"kind": "set", "t": op["t"], "field": op["field"], "value": op["value"],
                          "excusable": op["field"] in ("sample_rate", "sample_count") and
                          (op["value"] == 0 or op["value"] in GS.ZEROS)})
        elif op["op"] == "set_at":
            metas.append({"kind": "set_at", "t": op["t"], "field": op["field"], "index": op["index"],
                          "value": op["value"], "excusable": False})
        else:
            metas.append(None)
    if any(o["op"] == "load" and o.get("lib") for o in ops):
        full = []
        steps = []
        seen_load = False
        for o in ops:
            if o["op"] == "set" and seen_load:
                steps.append(len(full))
                full += [o, dict(OBS), dict(OBS_B)]
            else:
                full.append(o)
            if o["op"] == "load":
                seen_load = True
        judge_shared(ctx, runner.run_one({"id": "replay", "schema": r["schema"], "ops": full, "_shared": steps}, cfg="plain"))
        return
    twin = any(o.get("lib") for o in ops)
    full, index = interleave(ops, twin)
    case = {"id": "replay", "schema": r["schema"], "ops": full, "_metas": metas, "_index": index, "_twin": twin}
    judge_case(ctx, runner.run_one(case, cfg="plain"))
