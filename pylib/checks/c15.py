"""C15 - no public call has undefined behaviour, whatever its arguments.

Hostile, model-steered histories run inside the ASan+UBSan+libstdc++-assertions
build.  Monitors: sanitizer reports, libstdc++ assertions, signals, non-std
exceptions at the call boundary, the VDBE step budget (termination), the
wall-clock watchdog, and is_valid() of handles to removed entities.  The
harness refuses, on the library's behalf, the calls the documented contract
forbids (anything but copy/assign/destroy/id()/is_valid() on a removed handle)."""
import copy

from .. import forest as FO, gen_hist as GH, gen_snap as GS, runner
from ..framework import ALL_SCHEMAS, family, is_v2

LEVEL = "exploration"
RULE = ("hostile histories on all 18 versions: per-slot getters/setters at indices -1..9, 0..12 cue/loop slots, labels "
        "0..300 bytes incl. NUL and invalid UTF-8, every optional absent (in particular a waveform without sample rate "
        "and/or count), sample rate 0 / in (0,1) / huge, huge counts, doubles up to +-1e15 plus inf/NaN/1e300, integer "
        "edges, grids with equal, decreasing and extreme indices, empty and extension-less paths, ids of nonexistent "
        "tracks and crates, create-after with a crate from another parent, re-parenting onto self/child/grandchild, "
        "invalid names, every observer on every reachable state, and copy/assign/id()/is_valid() on removed handles; "
        "non-trivial = the history contains >= 3 out-of-contract-looking arguments of different kinds; distinct by "
        "canonical history")

HUGE = ["7ff0000000000000", "fff0000000000000", "7ff8000000000000", GS.dbits(1e300), GS.dbits(-1e300), GS.dbits(1e15),
        GS.dbits(-1e15), GS.dbits(9.3e18), GS.dbits(-9.3e18), GS.dbits(2.0 ** 63), GS.dbits(2.0 ** 31), GS.dbits(5e-324)]


def hostile_double(rng, kinds, tag):
    r = rng.random()
    if r < 0.35:
        kinds.add(tag + ":extreme-double")
        return rng.choice(HUGE)
    if r < 0.5:
        return GS.dbits(rng.choice([0.0, -0.0, 0.5, 1e-9, 0.999, -1.0]))
    return GS.dbits(rng.uniform(-1e6, 1e6))


def hostile_label(rng, kinds):
    r = rng.random()
    if r < 0.2:
        kinds.add("label:empty")
        return ""
    if r < 0.4:
        kinds.add("label:long")
        return bytes(rng.randrange(256) for _ in range(rng.choice([255, 256, 257, 300]))).hex()
    if r < 0.6:
        kinds.add("label:nul-or-invalid-utf8")
        return bytes([0, 0xff, 0xfe, 0x80, 0x41, 0]).hex()
    return bytes(rng.choice(b"abcxyz") for _ in range(rng.randrange(1, 10))).hex()


def hostile_cue(rng, kinds):
    if rng.random() < 0.2:
        return None
    return {"label": hostile_label(rng, kinds), "off": hostile_double(rng, kinds, "cue"), "color": [rng.randrange(256) for _ in range(4)]}


def hostile_loop(rng, kinds):
    if rng.random() < 0.2:
        return None
    return {"label": hostile_label(rng, kinds), "start": hostile_double(rng, kinds, "loop"),
            "end": hostile_double(rng, kinds, "loop"), "color": [rng.randrange(256) for _ in range(4)]}


def hostile_grid(rng, kinds):
    r = rng.random()
    if r < 0.15:
        return []
    n = rng.choice([1, 2, 3, 5, 40])
    idx = rng.choice([-4, 0, 2 ** 31 - 1, -2 ** 31, 100])
    g = []
    for i in range(n):
        q = rng.random()
        if q < 0.2:
            kinds.add("grid:equal-or-decreasing")
            step = rng.choice([0, -1, -1000])
        elif q < 0.3:
            kinds.add("grid:extreme-index")
            step = rng.choice([2 ** 31 - 1, -2 ** 31, 2 ** 30])
        else:
            step = rng.randrange(1, 64)
        idx = max(-2 ** 31, min(2 ** 31 - 1, idx + step))
        g.append([idx, hostile_double(rng, kinds, "grid") if rng.random() < 0.15 else GS.dbits(i * 22050.0 + rng.uniform(0, 100))])
    return g


def bulk_waveform(rng, kinds):
    """Tens of thousands of noisy entries: a blob that stays tens of KiB even after compression."""
    kinds.add("waveform:bulk-noise")
    n = rng.choice([25200, 30000, 65536, 100000])
    return rng.randbytes(6 * n).hex()


def bulk_grid(rng, kinds):
    """Thousands of markers with jittered offsets (incompressible doubles)."""
    kinds.add("grid:bulk-noise")
    n = rng.choice([4000, 9000, 40000])
    g, idx, off = [], -4, -1000.0
    for _ in range(n):
        g.append([idx, GS.dbits(off)])
        idx += rng.randrange(1, 9)
        off += rng.uniform(5000.0, 30000.0)
    return g


def hostile_snapshot(rng, schema, kinds):
    s = GS.gen_snapshot(rng, schema, rich=rng.random() < 0.5, hostile_sentinels=True, allow_nul=True, borderline=True)
    r = rng.random
    if r() < 0.04:
        s["waveform"] = bulk_waveform(rng, kinds)
        s.setdefault("sample_rate", GS.dbits(44100.0))
        s.setdefault("sample_count", 10 ** 7)
        if r() < 0.5:
            s["beatgrid"] = bulk_grid(rng, kinds)
        return s
    if r() < 0.3:
        # waveform although rate and/or count are absent
        n = rng.choice([1, 7, 1024])
        s["waveform"] = GS.rwaveform(rng, n)
        which = rng.random()
        if which < 0.4:
            s.pop("sample_rate", None)
        elif which < 0.7:
            s.pop("sample_count", None)
        else:
            s.pop("sample_rate", None)
            s.pop("sample_count", None)
        kinds.add("waveform:without-rate-or-count")
    if r() < 0.3:
        s["sample_rate"] = rng.choice([GS.dbits(0.5), GS.dbits(0.0), GS.dbits(1e-9), GS.dbits(0.999), GS.dbits(-44100.0), GS.dbits(-1.0),
                                       GS.dbits(-1.5), GS.dbits(1.0)] + HUGE)
        kinds.add("sample_rate:degenerate")
    if r() < 0.2:
        s["sample_count"] = rng.choice([0, 1, 2 ** 62, 2 ** 63 - 1, 2 ** 63, 2 ** 64 - 1])
        kinds.add("sample_count:huge")
    if r() < 0.2 and "waveform" not in s and "sample_rate" in s and "sample_count" in s:
        s["waveform"] = GS.rwaveform(rng, rng.choice([1, 3, 1023, 1025]))
    for f in ("bpm", "average_loudness", "main_cue"):
        if r() < 0.2:
            s[f] = hostile_double(rng, kinds, f)
    for f in ("bitrate", "track_number", "year", "rating"):
        if r() < 0.2:
            s[f] = rng.choice([0, -1, 2 ** 31 - 1, -2 ** 31])
            kinds.add("int:edge")
    if r() < 0.15:
        s["duration"] = rng.choice([-1, -1000, -2 ** 62, 2 ** 62, 0])
        kinds.add("duration:edge")
    if r() < 0.15:
        s["last_played_at"] = rng.choice([-1, -10 ** 18, 9 * 10 ** 18, -9 * 10 ** 18, 0])
        kinds.add("time:edge")
    if r() < 0.15:
        s["file_bytes"] = rng.choice([2 ** 63, 2 ** 64 - 1])
    if r() < 0.25:
        s["hot_cues"] = [hostile_cue(rng, kinds) for _ in range(rng.choice([0, 1, 8, 9, 12]))]
        kinds.add("cues:count")
    if r() < 0.25:
        s["loops"] = [hostile_loop(rng, kinds) for _ in range(rng.choice([0, 1, 8, 9, 12]))]
        kinds.add("loops:count")
    if r() < 0.25:
        s["beatgrid"] = hostile_grid(rng, kinds)
    if r() < 0.12:
        s["relative_path"] = rng.choice(["", GS.hx("noextension"), GS.hx("dir/"), GS.hx("."), GS.hx("a."), GS.hx(".mp3"),
                                         GS.hx("x/../y.mp3"), bytes([0xff, 0x2e, 0x6d]).hex(), GS.hx("a\0b.mp3")])
        kinds.add("path:odd")
    elif r() < 0.05:
        s.pop("relative_path", None)
        kinds.add("path:absent")
    if r() < 0.1:
        s["key"] = rng.choice([-1, 24, 255, 2 ** 31 - 1])
        kinds.add("key:out-of-enum")
    return s


def hostile_setter(rng, schema, th, kinds):
    field = rng.choice(GH.SETTER_FIELDS)
    if field in GS.STRING_FIELDS:
        val = rng.choice([None, "", bytes(rng.randrange(256) for _ in range(rng.choice([1, 300, 70000]))).hex(), GS.hx("a\0b")])
    elif field in GS.INT_FIELDS or field == "rating":
        val = rng.choice([None, 0, -1, 2 ** 31 - 1, -2 ** 31])
        kinds.add("int:edge")
    elif field == "duration":
        val = rng.choice([None, -1, -2 ** 62, 2 ** 62, 0, 999])
        kinds.add("duration:edge")
    elif field == "last_played_at":
        val = rng.choice([None, -1, -9 * 10 ** 18, 9 * 10 ** 18, 0])
        kinds.add("time:edge")
    elif field in ("bpm", "average_loudness", "main_cue", "sample_rate"):
        val = rng.choice([None, hostile_double(rng, kinds, field)])
        if field == "sample_rate":
            val = rng.choice([val, GS.dbits(0.5), GS.dbits(0.0), GS.dbits(-1.0), GS.dbits(-1.9)])
            kinds.add("sample_rate:degenerate")
    elif field == "sample_count":
        val = rng.choice([None, 0, 1, 2 ** 63, 2 ** 64 - 1])
        kinds.add("sample_count:huge")
    elif field == "key":
        val = rng.choice([None, 0, 23, 24, -1, 2 ** 31 - 1])
        kinds.add("key:out-of-enum")
    elif field == "relative_path":
        val = rng.choice(["", GS.hx("noext"), GS.hx("a/b.mp3"), GS.hx("/"), bytes([0xff]).hex()])
        kinds.add("path:odd")
    elif field == "hot_cues":
        val = [hostile_cue(rng, kinds) for _ in range(rng.choice([0, 1, 7, 8, 9, 12]))]
        kinds.add("cues:count")
    elif field == "loops":
        val = [hostile_loop(rng, kinds) for _ in range(rng.choice([0, 1, 7, 8, 9, 12]))]
        kinds.add("loops:count")
    elif field == "beatgrid":
        val = bulk_grid(rng, kinds) if rng.random() < 0.06 else hostile_grid(rng, kinds)
    elif rng.random() < 0.06:
        val = bulk_waveform(rng, kinds)
    else:  # waveform, regardless of whether rate/count are present
        val = GS.rwaveform(rng, rng.choice([0, 1, 5, 1024]))
        kinds.add("waveform:without-rate-or-count")
    return {"op": "set", "t": th, "field": field, "value": val}


def gen_history(rng, schema, n_ops):
    st = FO.GenState(schema)
    kinds = set()
    ops = [{"op": "create_temporary", "schema": schema}, {"op": "set_guard", "on": True},
           {"op": "note", "names": [FO.hx(n) for n in FO.VALID_NAMES[:4] + FO.INVALID_NAMES[:2]], "ids": [0, -1, 999, 2 ** 62]}]
    # empty library: every observer
    ops.append({"op": "observe_all", "probe_span": 4})
    for _ in range(n_ops):
        r = rng.random()
        lt, lc = st.live_tracks(), st.live_crates()
        if r < 0.14 or not lt:
            h = "t%d" % st.nt
            st.nt += 1
            st.tracks[h] = True
            ops.append({"op": "create_track", "as": h, "snap": hostile_snapshot(rng, schema, kinds)})
        elif r < 0.22:
            ops.append({"op": "update", "t": rng.choice(lt), "snap": hostile_snapshot(rng, schema, kinds)})
        elif r < 0.40:
            ops.append(hostile_setter(rng, schema, rng.choice(lt), kinds))
        elif r < 0.50:
            which = rng.choice(["hot_cue", "loop"])
            idx = rng.choice([-1, 0, 7, 8, 9, -2 ** 31, 2 ** 31 - 1, rng.randrange(-1, 10)])
            if idx < 0 or idx > 7:
                kinds.add("index:out-of-range")
            if rng.random() < 0.5:
                ops.append({"op": "get_at", "t": rng.choice(lt), "field": which, "index": idx})
            else:
                val = hostile_cue(rng, kinds) if which == "hot_cue" else hostile_loop(rng, kinds)
                ops.append({"op": "set_at", "t": rng.choice(lt), "field": which, "index": idx, "value": val})
        elif r < 0.56 and lc:
            # positional creation with an anchor from anywhere in the tree: a sibling, a crate under another
            # parent, a root crate, the parent itself, the caller itself
            anchor = rng.choice(lc)
            name = rng.choice(FO.VALID_NAMES + FO.INVALID_NAMES[:2]) + str(rng.randrange(50))
            h = "c%d" % st.nc
            st.nc += 1
            kinds.add("after:maybe-other-parent")
            if rng.random() < 0.35:
                ops.append({"op": "create_root_crate_after", "name": FO.hx(name), "after": anchor, "as": h})
                ok_parent = None
            else:
                ok_parent = rng.choice(lc)
                ops.append({"op": "create_sub_crate_after", "c": ok_parent, "name": FO.hx(name), "after": anchor, "as": h})
            # the generator's model: the creation succeeds only if the anchor is a sibling under that parent
            if not FO.name_invalid(FO.hx(name)) and (not st.v2 or st.crates[anchor]["parent"] == ok_parent):
                st.crates[h] = {"name": name, "parent": ok_parent, "alive": True}
        elif r < 0.68:
            op, _ = FO.gen_crate_op(rng, st, hostile=True)
            if op["op"] == "set_parent" and op["parent"] is not None:
                kinds.add("parent:self-or-descendant-or-other")
            if "after" in op:
                kinds.add("after:maybe-other-parent")
            if FO.name_invalid(op.get("name", "61")):
                kinds.add("name:invalid")
            ops.append(op)
        elif r < 0.76:
            op, _ = FO.gen_membership_op(rng, st)
            if op:
                ops.append(op)
        elif r < 0.82 and lc:
            ops.append({"op": "add_track_id", "c": rng.choice(lc), "id": rng.choice([0, -1, 999999, 2 ** 62])})
            kinds.add("id:nonexistent")
        elif r < 0.88:
            ops.append({"op": rng.choice(["crate_by_id", "track_by_id"]), "id": rng.choice([0, -1, 999999, 2 ** 63 - 1, -2 ** 63])})
            kinds.add("id:nonexistent")
        elif r < 0.93:
            hs = list(st.tracks) + list(st.crates)
            if hs:
                ops.append({"op": "handle_ops", "h": rng.choice(hs)})
        else:
            ops.append({"op": "observe_all", "probe_span": 4})
    ops.append({"op": "observe_all", "probe_span": 4})
    for h in list(st.tracks) + list(st.crates):
        ops.append({"op": "handle_ops", "h": h})
    ops.append({"op": "verify"})
    return ops, kinds, st


def gen_table_history(rng, schema, n_ops):
    """Hostile use of the public 2.x table API (engine_library): rows and ids that do not exist, ids that are
    already set, invalid titles, parents and successors that do not exist or belong elsewhere, duplicate entities,
    followed by every listing."""
    from . import c18
    kinds = set()
    u = {"i": set(), "d": set(), "s": set(), "t": set()}
    ops = [{"op": "lib_create_temporary", "schema": schema}, {"op": "info_get", "bind": "uuid", "bind_field": "uuid", "bind_hex": True}]
    ntr, npl = 0, 0
    ids_t, ids_p = [0, -1, 999999, 2 ** 62], [0, -1, 999999, -2 ** 62]
    for _ in range(n_ops):
        r = rng.random()
        if r < 0.12:
            row = c18.gen_row(rng, u, 0.3)
            if rng.random() < 0.3:
                row["id"] = rng.choice([1, -1, 999999])
                kinds.add("row:id-already-set")
            if rng.random() < 0.2:
                row["quick_cues"]["cues"] = [hostile_cue(rng, kinds) or {"label": "", "off": GS.MINUS1, "color": [0, 0, 0, 0]} for _ in range(rng.choice([0, 3, 9, 20]))]
            ntr += 1
            ops.append({"op": "trk_add", "row": row, "bind": "t%d" % ntr})
            ids_t.append("$t%d" % ntr)
        elif r < 0.30:
            col = rng.choice(c18.ALL_COLS)
            tid = rng.choice(ids_t)
            if rng.random() < 0.5:
                ops.append({"op": "trk_get_col", "id": tid, "col": col})
            else:
                ops.append({"op": "trk_set_col", "id": tid, "col": col, "value": c18.col_value(rng, col, u, 0.3)})
            kinds.add("table:accessor-on-any-id")
        elif r < 0.36:
            ops.append({"op": rng.choice(["trk_get", "trk_remove", "trk_exists"]), "id": rng.choice(ids_t)})
        elif r < 0.42:
            row = c18.gen_row(rng, u, 0.3)
            row["id"] = rng.choice(ids_t)
            ops.append({"op": "trk_update", "row": row})
            kinds.add("table:update-any-id")
        elif r < 0.58:
            npl += 1
            title = rng.choice([FO.hx("L%d" % npl), FO.hx("dup"), "", FO.hx("a;b"), FO.hx("x" * 300)])
            if title in ("", FO.hx("a;b")):
                kinds.add("name:invalid")
            row = {"title": title, "parent_list_id": rng.choice(ids_p), "is_persisted": rng.random() < 0.7,
                   "next_list_id": rng.choice(ids_p + [0, 0, 0]), "last_edit_time": rng.choice([0, 10 ** 18, -10 ** 18, 1600000000 * 10 ** 9]),
                   "is_explicitly_exported": rng.random() < 0.5}
            if rng.random() < 0.2:
                row["id"] = rng.choice([1, 5, 999])
            if row["parent_list_id"] not in (0,) or row["next_list_id"] != 0:
                kinds.add("playlist:foreign-parent-or-successor")
            ops.append({"op": "pl_add", "row": row, "bind": "p%d" % npl})
            ids_p.append("$p%d" % npl)
        elif r < 0.68:
            row = {"id": rng.choice(ids_p), "title": rng.choice([FO.hx("renamed"), "", FO.hx("dup")]), "parent_list_id": rng.choice(ids_p),
                   "is_persisted": rng.random() < 0.5, "next_list_id": rng.choice(ids_p), "last_edit_time": 0, "is_explicitly_exported": False}
            ops.append({"op": "pl_update", "row": row})
            kinds.add("playlist:update-with-arbitrary-links")
        elif r < 0.74:
            ops.append({"op": rng.choice(["pl_remove", "pl_get", "pl_child_ids", "pl_descendant_ids", "pl_exists"]), "id": rng.choice(ids_p)})
        elif r < 0.86:
            row = {"list_id": rng.choice(ids_p), "track_id": rng.choice(ids_t), "database_uuid": rng.choice(["$uuid", "", FO.hx("other")]),
                   "next_entity_id": rng.choice([0, 0, 999, -1]), "membership_reference": rng.choice([0, -1, 2 ** 62])}
            if rng.random() < 0.15:
                row["id"] = 7
            ops.append({"op": "pe_add_back", "row": row, "throw_if_duplicate": rng.random() < 0.3})
            kinds.add("entity:any-list-any-track")
        elif r < 0.92:
            ops.append({"op": rng.choice(["pe_remove", "pe_get"]), "list": rng.choice(ids_p), "track": rng.choice(ids_t)})
        elif r < 0.96:
            ops.append({"op": rng.choice(["pe_clear", "pe_get_for_list", "pe_track_ids"]), "list": rng.choice(ids_p)})
        else:
            ops.append({"op": "table_observe"})
    ops.append({"op": "table_observe"})
    ops.append({"op": "observe_all", "snapshots": False})
    ops.append({"op": "verify"})
    return ops, kinds


def judge_case(ctx, res):
    case = res.case
    schema = case["schema"]
    fam = family(schema)
    ops = case["ops"]
    ctx.bump_in("cases_by_schema", schema)
    wit = {"schema": schema, "ops": ops}
    for k, ev in enumerate(res.events):
        op = ops[k]
        name = op["op"]
        ctx.count()
        ctx.bump_in("ops", name if name not in ("set", "set_at", "get_at") else name + ":" + op["field"])
        site = name if name not in ("set", "set_at", "get_at") else name + ":" + op["field"]
        sh = ev.get("sh", {})
        if sh.get("step_budget_exceeded"):
            ctx.violation(f"no-termination {fam} {site}", f"{schema}: {site} exceeded the VDBE step budget", wit)
        if "exc" in ev:
            x = ev["exc"]
            if not x.get("std", True):
                ctx.violation(f"non-std-exception {fam} {site}", f"{schema}: {site} threw {x.get('type')} which is not derived from std::exception", wit)
            elif "harness_error" in x.get("is", []):
                ctx.bump("ops_refused_by_contract_guard")
            else:
                ctx.bump_in("exceptions", x["type"])
        if name == "handle_ops" and "ret" in ev:
            r = ev["ret"]
            ctx.bump("handle_ops_checked")
            if not r.get("same"):
                ctx.violation(f"handle-copy-changes-id {fam}", f"{schema}: copying a handle changed its id()", wit)
        if name == "observe_all" and "ret" in ev:
            ctx.bump("observations")
            o = ev["ret"]
            from ..framework import held_handles
            held_handles(ctx, o, fam, schema, wit)
            live_t = set(o["db"]["tracks"]) if isinstance(o["db"]["tracks"], list) else set()
            live_c = set(o["db"]["crates"]) if isinstance(o["db"]["crates"], list) else set()
            for h, x in (o.get("track_handles") or {}).items():
                if x.get("valid") is True and x["id"] not in live_t:
                    ctx.violation(f"is_valid-true-on-removed {fam} track", f"{schema}: is_valid() is true for a handle whose track is not in tracks()", wit)
            for h, x in (o.get("crate_handles") or {}).items():
                if x.get("valid") is True and x["id"] not in live_c:
                    ctx.violation(f"is_valid-true-on-removed {fam} crate", f"{schema}: is_valid() is true for a handle whose crate is not in crates()", wit)

            def scan(node, path):
                if isinstance(node, dict):
                    if node.get("nonstd"):
                        ctx.violation(f"non-std-exception {fam} observer", f"{schema}: an observer threw a non-std exception at {path}", wit)
                    for kk, vv in node.items():
                        scan(vv, path + "/" + kk)
                elif isinstance(node, list):
                    for vv in node:
                        scan(vv, path)
            scan(o, "")
    if res.crash:
        c = res.crash
        if c["op_index"] < 0:
            ctx.fail_harness("executor died outside any op: %s %s" % (c["kind"], c.get("stderr", "")[:200]))
            return
        i = c["op_index"]
        op = ops[i] if i < len(ops) else {"op": "?"}
        name = op["op"]
        site = name if name not in ("set", "set_at", "get_at") else name + ":" + op["field"]
        ctx.count()
        rule = "no-termination" if c["kind"] == "hang" else "undefined-behaviour"
        ctx.violation(f"{rule} {fam} {site} {c['kind']} at={c['site']}",
                      f"{schema}: {site} died: {c['kind']} in {c['site']}",
                      {"schema": schema, "ops": ops[:i + 1], "crash": c["kind"], "stderr": c.get("stderr", "")[:1500]})
    if len(case["_kinds"]) >= 3:
        ctx.nontriv({"schema": schema, "ops": ops})
    for kd in case["_kinds"]:
        ctx.bump_in("hostile_argument_kinds", kd)


def run(ctx):
    per = 30 if ctx.tier == "quick" else 2000
    cases = []
    n = 0
    sampled = [False]

    def flush(force=False):
        # generated, run and judged in slices: bulk arguments are large, a thorough tier would otherwise hold tens of GB
        if cases and (force or len(cases) >= 1500):
            if not sampled[0]:
                ctx.sample({"schema": cases[0]["schema"], "hostile_kinds": cases[0]["_kinds"], "n_ops": len(cases[0]["ops"])})
                sampled[0] = True
            runner.run_cases(cases, cfg="san", on_result=lambda r: judge_case(ctx, r), stall_timeout=90)
            cases.clear()

    for schema in ALL_SCHEMAS:
        for k in range(per):
            ops, kinds, _ = gen_history(ctx.rng, schema, 25 + (k % 4) * 10)
            cases.append({"id": "h%d" % n, "schema": schema, "ops": ops, "_kinds": sorted(kinds)})
            n += 1
            flush()
    from ..framework import V2_SCHEMAS
    pert = 25 if ctx.tier == "quick" else 1500
    for schema in V2_SCHEMAS:
        for k in range(pert):
            ops, kinds = gen_table_history(ctx.rng, schema, 30 + (k % 3) * 15)
            cases.append({"id": "tb%d" % n, "schema": schema, "ops": ops, "_kinds": sorted(kinds), "_table": True})
            n += 1
            flush()
    # recordings of several hours: more than 2^20 / 2^21 waveform entries (made inside the executor), through every way in
    for i, schema in enumerate(ALL_SCHEMAS):
        nbig = [1134000, 2 ** 20 + 1, 1049089, 2 ** 21 + 3, 1500000][i % 5] if ctx.tier == "quick" else ctx.rng.choice([1134000, 2 ** 21 + 3, 3000000, 5000000])
        base = {"relative_path": GS.hx("long/recording %d.wav" % i), "sample_rate": GS.dbits(44100.0), "sample_count": nbig * 400}
        ops = [{"op": "create_temporary", "schema": schema},
               {"op": "create_track", "as": "t0", "snap": base},
               {"op": "set", "t": "t0", "field": "waveform", "value": {"gen": nbig, "seed": 7 + i}},
               {"op": "get", "t": "t0", "field": "waveform"},
               {"op": "snapshot", "t": "t0"},
               {"op": "update_last", "t": "t0"},
               {"op": "create_track", "as": "t1", "snap": dict(base, relative_path=GS.hx("long/second %d.wav" % i), waveform={"gen": nbig + 1, "seed": 3})},
               {"op": "update", "t": "t0", "snap": dict(base, waveform={"gen": nbig - 1, "seed": 5})},
               {"op": "observe_all", "snapshots": False}]
        cases.append({"id": "long%d" % n, "schema": schema, "ops": ops, "_kinds": ["waveform:millions-of-entries"], "no_tz": True})
        n += 1
    flush(force=True)
    ctx.assumptions += ["ASan+UBSan(float-cast-overflow, float-divide-by-zero)+_GLIBCXX_ASSERTIONS build; a single allocation above 128 MiB "
                        "fails with std::bad_alloc", "calls on removed handles other than copy/assign/destroy/id()/is_valid() are "
                        "refused by the harness (documented contract)", "termination: VDBE step budget per call plus a 60 s watchdog"]
    seen = set(ctx.extra.get("cases_by_schema", {}))
    if seen != set(ALL_SCHEMAS):
        ctx.fail_harness("schema versions not covered: %s" % sorted(set(ALL_SCHEMAS) - seen))
    if not ctx.extra.get("handle_ops_checked"):
        ctx.fail_harness("handle operations never exercised")


def replay(ctx, doc):
    r = doc["replay"]
    case = {"id": "replay", "schema": r["schema"], "ops": r["ops"], "_kinds": []}
    judge_case(ctx, runner.run_one(case, cfg="san", stall_timeout=90))
