"""C11 - the stored database stays a well-formed Engine library.

After every prefix of mixed API histories the raw tables are dumped with plain
SELECTs (no library code) and judged by an independent reader: SQLite
integrity and foreign-key checks, verify(), every stored performance blob
decodes under the independent codec, the three 1.x crate encodings describe
one forest, the 2.x sibling and entry chains are single acyclic lists covering
all rows, and derived per-track columns agree with the path and database uuid."""
from .. import gen_hist as GH, rawread as RR, runner
from ..framework import ALL_SCHEMAS, family, is_v2

LEVEL = "exploration"
RULE = ("mixed histories on all 18 versions (rich tracks, every single-field setter incl. set_relative_path, crate "
        "create/rename/re-parent/remove incl. subtrees and non-last siblings, memberships, track removal), raw tables "
        "dumped and judged after every step; non-trivial = at some dump the state has >= 2 tracks with performance "
        "data, >= 3 crates and >= 2 memberships; distinct by canonical history")

VIEWS = ["Crate", "CrateParentList", "CrateHierarchy", "CrateTrackList", "PerformanceData"]


def make_case(cid, rng, schema, n_ops, every, shaped=None):
    ops, metas = GH.gen_library_history(rng, schema, n_ops)
    full = [{"op": "create_temporary", "schema": schema}]
    marks = [None]
    if shaped is not None:
        pre = GH.first_id_prelude(schema, GH.FIRST_IDS[shaped % len(GH.FIRST_IDS)])
        full += pre
        marks += [None] * len(pre)
    last = "create"
    for i, (op, m) in enumerate(zip(ops, metas)):
        full.append(op)
        marks.append(None)
        kind = m["kind"] + (":" + m["field"] if m["kind"] == "set" else "")
        if i % every == every - 1 or i == len(ops) - 1:
            full.append({"op": "rawdump", "views": VIEWS, "checks": True})
            marks.append({"after": kind})
            full.append({"op": "verify"})
            marks.append({"verify_after": kind})
    return {"id": cid, "schema": schema, "ops": full, "_marks": marks}


def judge_case(ctx, res):
    case = res.case
    schema = case["schema"]
    fam = family(schema)
    v2 = is_v2(schema)
    ops, marks = case["ops"], case["_marks"]
    ctx.bump_in("cases_by_schema", schema)
    nontriv = False
    for k, ev in enumerate(res.events):
        m = marks[k]
        if not m:
            continue
        wit = {"schema": schema, "ops": ops[:k + 1]}
        if "verify_after" in m:
            if "exc" in ev:
                x = ev["exc"]
                what = bytes.fromhex(x.get("what", "")).decode(errors="replace")[:120]
                ctx.violation(f"verify-fails {fam}", f"{schema}: verify() throws {x['type']} after {m['verify_after']}: {what}", wit)
            continue
        after = m["after"]
        if "exc" in ev:
            ctx.fail_harness("rawdump failed: %s" % bytes.fromhex(ev["exc"].get("what", "")).decode(errors="replace")[:200])
            return
        dump = ev["ret"]
        ctx.count()
        ctx.bump("dumps_judged")
        problems = []
        problems += RR.check_pragmas(dump)
        bl, nb = RR.check_blobs(dump, v2)
        problems += bl
        ctx.bump("blobs_decoded", nb)
        if v2:
            pr, n = RR.check_v2_chains(dump)
            ctx.bump("chain_rows_checked", n)
        else:
            pr, n = RR.check_v1_crates(dump)
            ctx.bump("crate_rows_checked", n)
        problems += pr
        pr, n = RR.check_derived_columns(dump, v2)
        problems += pr
        ctx.bump("tracks_checked", n)
        for rule, msg in problems:
            ctx.violation(f"malformed {fam} {rule}", f"{schema}: first seen after {after}: {msg}", wit)
        if problems:
            break
        tr = RR.table(dump, "Track") or []
        ncr = len(RR.table(dump, "Playlist" if v2 else "Crate") or [])
        nmem = len(RR.table(dump, "PlaylistEntity" if v2 else "CrateTrackList") or [])
        if len([t for t in tr if t.get("path") is not None]) >= 2 and ncr >= 3 and nmem >= 2:
            nontriv = True
    if res.crash:
        c = res.crash
        if c["op_index"] < 0:
            ctx.fail_harness("executor died outside any op: %s" % c["kind"])
            return
        i = c["op_index"]
        ctx.violation(f"op-did-not-complete {fam} {c.get('op')} {c['kind']} at={c['site']}",
                      f"{schema}: {c.get('op')} did not complete: {c['kind']} in {c['site']}",
                      {"schema": schema, "ops": ops[:i + 1], "crash": c["kind"]})
    if nontriv:
        ctx.nontriv({"schema": schema, "ops": ops})


def run(ctx):
    per = 16 if ctx.tier == "quick" else 500
    cases = []
    n = 0
    for schema in ALL_SCHEMAS:
        for k in range(per):
            every = 1 if (k % 4 == 0 or ctx.tier != "quick") else 3
            cases.append(make_case("w%d" % n, ctx.rng, schema, 20 + (k % 3) * 8, every, shaped=(k // 4 if k % 4 == 2 else None)))
            n += 1
    # stored blobs of realistic size: waveforms of tens of thousands of entries, including the sizes whose stored payload is
    # an exact multiple of the 16 KiB chunk the container is written in, and grids of thousands of markers
    from .. import gen_snap as GS
    for schema in ALL_SCHEMAS:
        full = [{"op": "create_temporary", "schema": schema}]
        marks = [None]
        sn = GS.gen_snapshot(ctx.rng, schema, rich=True, hostile_sentinels=False)
        sn["sample_rate"] = GS.dbits(44100.0)
        sn["sample_count"] = 44100 * 234
        full.append({"op": "create_track", "as": "t0", "snap": sn})
        marks.append(None)
        for nwave in (8187, 16379, 24571, 8188, 30000):
            full.append({"op": "set", "t": "t0", "field": "waveform", "value": GS.rwaveform(ctx.rng, nwave)})
            marks.append(None)
            full.append({"op": "rawdump", "views": VIEWS, "checks": True})
            marks.append({"after": "set:waveform(%d entries)" % nwave})
            full.append({"op": "verify"})
            marks.append({"verify_after": "set:waveform(%d entries)" % nwave})
        big = dict(sn, relative_path=GS.hx("big/second.mp3"), waveform=GS.rwaveform(ctx.rng, 16379), beatgrid=GS.rgrid(ctx.rng, big=True, sizes=(5000,)))
        full.append({"op": "create_track", "as": "t1", "snap": big})
        marks.append(None)
        full.append({"op": "rawdump", "views": VIEWS, "checks": True})
        marks.append({"after": "create_track(16379 waveform entries, 5000 markers)"})
        cases.append({"id": "w%d" % n, "schema": schema, "ops": full, "_marks": marks})
        n += 1
    ctx.sample({"schema": cases[0]["schema"], "ops": [o["op"] for o in cases[0]["ops"]][:16]})
    ctx.assumptions += ["only the encodings the statement lists are judged; columns of unknown meaning (trackCount, ordering, "
                        "isPersisted, lengthCalculated) are not", "the dump is plain SELECT * on the library's own connection",
                        "blobs are decoded with the independent Python codec (pylib/engine_codec.py)"]
    runner.run_cases(cases, cfg="plain", on_result=lambda r: judge_case(ctx, r))
    seen = set(ctx.extra.get("cases_by_schema", {}))
    if seen != set(ALL_SCHEMAS):
        ctx.fail_harness("schema versions not covered: %s" % sorted(set(ALL_SCHEMAS) - seen))
    if ctx.extra.get("blobs_decoded", 0) < 100:
        ctx.fail_harness("too few stored blobs were decoded")


def replay(ctx, doc):
    r = doc["replay"]
    ops = r["ops"]
    marks = []
    last = "?"
    for o in ops:
        if o["op"] == "rawdump":
            marks.append({"after": last})
        elif o["op"] == "verify":
            marks.append({"verify_after": last})
        else:
            marks.append(None)
            last = o["op"] + (":" + o["field"] if o["op"] == "set" else "")
    judge_case(ctx, runner.run_one({"id": "replay", "schema": r["schema"], "ops": ops, "_marks": marks}, cfg="plain"))
