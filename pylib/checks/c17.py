"""C17 - verify() reports every structural deviation from the schema.

For each of the 18 versions (and each database file) every applicable single structural mutation is applied to a fresh
copy of a library created by the real code, using Python's own sqlite3; a mutation is kept only if SQLite still
considers the file healthy, a before/after diff shows exactly the intended change, and load_database() still accepts
the library.  verify() must then throw database_inconsistency.  Controls: unmutated created libraries and every
reference library must pass verify()."""
import os
import shutil
from concurrent.futures import ProcessPoolExecutor

from .. import runner, schema_mut as SM, sqlnorm as SN
from ..framework import ALL_SCHEMAS, is_v2

LEVEL = "exploration"
RULE = ("single structural mutations (drop / add / rename of tables, views, indexes, columns; change of column type, NOT "
        "NULL, default, primary-key membership; change of index uniqueness or column list) of libraries created at each "
        "of the 18 versions, both database files on 1.x; every applied-and-confirmed mutation counts (the space is "
        "finite and enumerated completely in both tiers); controls: unmutated "
        "libraries and all reference libraries; distinct by (version, file, mutation)")


def _prepare(args):
    tdir, cdir, dbrel, m = args
    shutil.copytree(tdir, cdir)
    kept, why = SM.apply_mutation(os.path.join(cdir, dbrel), m)
    if not kept:
        shutil.rmtree(cdir, ignore_errors=True)
    return kept, why


def mut_name(m):
    return m[0] + (":" + m[3] if m[0] == "edit_column" else "")


def run(ctx):
    root = runner.scratch_dir("djc17_")
    frac = 1.0   # the whole space takes about ten seconds, so both tiers enumerate it
    try:
        # templates
        tdirs = {}
        cases = []
        from .. import gen_snap as GS
        for i, s in enumerate(ALL_SCHEMAS):
            d = os.path.join(root, "tmpl%d" % i)
            os.makedirs(d)
            tdirs[s] = d
            cases.append({"id": "t%d" % i, "ops": [{"op": "create", "schema": s, "dir": d}, {"op": "verify"}, {"op": "release_all"}]})
            # the same library with content: tracks with performance data, nested crates, memberships
            d = os.path.join(root, "tmplp%d" % i)
            os.makedirs(d)
            tdirs[(s, "populated")] = d
            ops = [{"op": "create", "schema": s, "dir": d}]
            for j in range(3):
                ops.append({"op": "create_track", "as": "t%d" % j, "snap": GS.gen_snapshot(ctx.rng, s, rich=True, hostile_sentinels=False)})
            ops += [{"op": "create_root_crate", "name": GS.hx("A"), "as": "cA"}, {"op": "create_sub_crate", "c": "cA", "name": GS.hx("B"), "as": "cB"},
                    {"op": "add_track", "c": "cA", "t": "t0"}, {"op": "add_track", "c": "cB", "t": "t1"}, {"op": "add_track", "c": "cB", "t": "t2"},
                    {"op": "verify"}, {"op": "release_all"}]
            cases.append({"id": "tp%d" % i, "ops": ops})
        res = runner.run_cases(cases, cfg="plain")
        for r in res:
            if r.crash or any("exc" in e for e in r.events):
                ctx.violation("unmutated-library-rejected created", "verify() rejects a library freshly created by this version", {"ops": r.case["ops"]})
        ctx.bump("controls_created", len(res))
        # reference libraries (control): hydrate with the library's own create_database_from_scripts
        rcases = []
        refdirs = sorted({d[:-len("/Database2")] if d.endswith("/Database2") else d for d in SN.reference_dirs()})
        for i, rd in enumerate(refdirs):
            d = os.path.join(root, "ref%d" % i)
            os.makedirs(d)
            rcases.append({"id": "r%d" % i, "_ref": os.path.relpath(rd, "/repo/testdata/ref/engine"),
                           "ops": [{"op": "create_from_scripts", "dir": d, "scripts": rd}, {"op": "verify"}, {"op": "release_all"}]})
        for r in runner.run_cases(rcases, cfg="plain"):
            ctx.count()
            ctx.bump("controls_reference")
            ev = r.events
            if r.crash or len(ev) < 2:
                ctx.violation("reference-library-crashes", f"loading/verifying reference {r.case['_ref']} did not complete", {"ops": r.case["ops"]})
            elif "exc" in ev[0]:
                ctx.bump_in("reference_not_loadable", ev[0]["exc"]["type"])
            elif "exc" in ev[1]:
                ctx.violation(f"reference-library-rejected {r.case['_ref']}", f"verify() rejects the reference library {r.case['_ref']}: {ev[1]['exc']['type']}", {"ops": r.case["ops"]})
        # mutations, version by version
        n = 0
        with ProcessPoolExecutor(16) as pool:
            for s, tkey in [(s, s) for s in ALL_SCHEMAS] + [(s, (s, "populated")) for s in ALL_SCHEMAS]:
                v2 = is_v2(s)
                files = ["Database2/m.db"] if v2 else ["m.db", "p.db"]
                jobs = []
                for dbrel in files:
                    muts = SM.enumerate_mutations(os.path.join(tdirs[tkey], dbrel))
                    ctx.bump_in("mutations_enumerated", s if tkey == s else s + " populated", len(muts))
                    by_kind = {}
                    for m in muts:
                        by_kind.setdefault(mut_name(m), []).append(m)
                    for kind, lst in sorted(by_kind.items()):
                        k = max(1, int(round(len(lst) * frac))) if frac < 1 else len(lst)
                        chosen = lst if frac >= 1 else ctx.rng.sample(lst, min(k, len(lst)))
                        for m in chosen:
                            cdir = os.path.join(root, "m%d" % n)
                            jobs.append((tdirs[tkey], cdir, dbrel, m))
                            n += 1
                outcomes = list(pool.map(_prepare, jobs, chunksize=8))
                loads = []
                meta = {}
                for (tdir, cdir, dbrel, m), (kept, why) in zip(jobs, outcomes):
                    if not kept:
                        ctx.bump_in("mutations_not_applicable", why.split(":")[0][:40])
                        continue
                    cid = os.path.basename(cdir)
                    meta[cid] = (s, dbrel, m, tkey != s)
                    loads.append({"id": cid, "ops": [{"op": "load", "dir": cdir}, {"op": "verify"}, {"op": "release_all"}]})
                results = {}
                runner.run_cases(loads, cfg="plain", on_result=lambda r: results.__setitem__(r.case["id"], r))
                for cid, r in results.items():
                    s_, dbrel, m, populated = meta[cid]
                    name = mut_name(m)
                    wit = {"schema": s_, "file": dbrel, "mutation": list(m), "populated": populated}
                    ctx.bump_in("mutations_judged_on", "populated library" if populated else "empty library")
                    ev = r.events
                    if r.crash:
                        ctx.count()
                        ctx.violation(f"verify-crashes {name}", f"{s_}: load/verify of a library with mutation {m} died: {r.crash['kind']}", wit)
                        continue
                    if not ev or "exc" in ev[0]:
                        ctx.bump_in("mutations_make_library_unloadable", name)
                        continue
                    ctx.count()
                    ctx.nontriv("%s|%s|%s|%s" % (s_, dbrel, m, populated))
                    ctx.bump_in("mutations_judged", name)
                    ctx.bump_in("mutations_judged_by_schema", s_)
                    e = ev[1]
                    if "exc" not in e:
                        fam = "v2" if is_v2(s_) else "v1"
                        target = m[1] if len(m) > 1 else ""
                        ctx.violation(f"deviation-not-reported {fam} {name} {dbrel.split('/')[-1]} {target}",
                                      f"{s_}: verify() accepts a library whose {dbrel} carries the single deviation {m}", wit)
                    elif "database_inconsistency" not in e["exc"].get("is", []):
                        ctx.violation(f"deviation-wrong-exception {name} {e['exc']['type']}",
                                      f"{s_}: verify() reports mutation {m} with {e['exc']['type']} instead of database_inconsistency", wit)
                for cid in meta:
                    shutil.rmtree(os.path.join(root, cid), ignore_errors=True)
        live_stage(ctx, root, tdirs)
        sanitizer_stage(ctx)
    finally:
        shutil.rmtree(root, ignore_errors=True)
    ctx.exhaustive = True
    ctx.sample({"kinds": sorted(ctx.extra.get("mutations_judged", {}))})
    ctx.assumptions += ["a mutation is judged only if integrity_check passes, the before/after diff of table_info/index_list shows "
                        "exactly the intended change, and load_database() still accepts the library",
                        "views are structural objects by name (verify() does not look at view bodies; the statement does not ask it to)"]
    if set(ctx.extra.get("mutations_judged_by_schema", {})) != set(ALL_SCHEMAS):
        ctx.fail_harness("not every version had mutations judged")
    for need in ("drop_table", "add_table", "rename_table", "drop_view", "add_view", "drop_index", "add_index", "add_column",
                 "drop_column", "rename_column", "edit_column:type", "edit_column:notnull", "edit_column:default", "index_uniqueness"):
        if not ctx.extra.get("mutations_judged", {}).get(need):
            ctx.fail_harness("mutation kind never judged: " + need)


def live_mutations(dbfile):
    """Single-statement structural changes another writer can make while the library is open."""
    import sqlite3
    con = sqlite3.connect(dbfile)
    try:
        master = con.execute("SELECT type, name, tbl_name, sql FROM sqlite_master ORDER BY name").fetchall()
        tables = [r[1] for r in master if r[0] == "table" and not r[1].startswith("sqlite_")]
        idx = [r[1] for r in master if r[0] == "index" and r[3]]
        views = [r[1] for r in master if r[0] == "view"]
        out = [("add_table", "CREATE TABLE LiveExtra (x INTEGER)"), ("add_view", "CREATE VIEW LiveExtraView AS SELECT 1 AS one")]
        if tables:
            t = tables[len(tables) // 2]
            col = con.execute('PRAGMA table_info("%s")' % t).fetchall()[0][1]
            out.append(("add_index", 'CREATE INDEX live_extra_idx ON "%s" ("%s")' % (t, col)))
            out.append(("add_column", 'ALTER TABLE "%s" ADD COLUMN liveExtra INTEGER' % tables[0]))
        if idx:
            out.append(("drop_index", 'DROP INDEX "%s"' % idx[len(idx) // 2]))
        if views:
            out.append(("drop_view", 'DROP VIEW "%s"' % views[-1]))
        return out
    finally:
        con.close()


def live_stage(ctx, root, tdirs):
    """The same kinds of deviation appearing WHILE a handle is open: the library is loaded and verified (must pass), another
    writer (a second connection) changes the structure, and verify() on the handle that is still open must now report it."""
    cases, meta = [], {}
    n = 0
    for s in ALL_SCHEMAS:
        v2 = is_v2(s)
        for dbrel in (["Database2/m.db"] if v2 else ["m.db", "p.db"]):
            for kind, ddl in live_mutations(os.path.join(tdirs[(s, "populated")], dbrel)):
                cdir = os.path.join(root, "live%d" % n)
                shutil.copytree(tdirs[(s, "populated")], cdir)
                cid = "live%d" % n
                n += 1
                meta[cid] = (s, dbrel, kind, ddl)
                cases.append({"id": cid, "ops": [{"op": "load", "dir": cdir}, {"op": "verify"}, {"op": "observe_all", "snapshots": False},
                                                 {"op": "other_writer_exec", "file": os.path.join(cdir, dbrel), "sql": [ddl]},
                                                 {"op": "verify"}, {"op": "release_all"}]})

    def on_result(r):
        s, dbrel, kind, ddl = meta[r.case["id"]]
        fam = "v2" if is_v2(s) else "v1"
        wit = {"schema": s, "file": dbrel, "live": True, "kind": kind, "ddl": ddl}
        ev = r.events
        if r.crash:
            ctx.count()
            ctx.violation(f"verify-crashes live:{kind}", f"{s}: verify() around a structural change by another writer died: {r.crash['kind']}", wit)
            return
        if len(ev) < 5 or "exc" in ev[0] or "exc" in ev[1]:
            ctx.fail_harness("live-mutation control failed for %s %s" % (s, dbrel))
            return
        if "exc" in ev[3]:
            ctx.bump_in("live_mutations_not_applicable", kind)
            return
        ctx.count()
        ctx.nontriv("live|%s|%s|%s" % (s, dbrel, kind))
        ctx.bump_in("mutations_made_by_another_writer_while_a_verified_handle_is_open", kind)
        e = ev[4]
        if "exc" not in e:
            ctx.violation(f"deviation-not-reported-on-open-handle {fam} {kind} {dbrel.split('/')[-1]}",
                          f"{s}: verify() passed, another writer then ran [{ddl}] on {dbrel}, and verify() on the still-open handle passes again", wit)
        elif "database_inconsistency" not in e["exc"].get("is", []):
            ctx.violation(f"deviation-wrong-exception live:{kind} {e['exc']['type']}",
                          f"{s}: verify() reports [{ddl}] made by another writer with {e['exc']['type']} instead of database_inconsistency", wit)

    runner.run_cases(cases, cfg="plain", on_result=on_result)
    if not ctx.extra.get("mutations_made_by_another_writer_while_a_verified_handle_is_open"):
        ctx.fail_harness("the live-mutation stage judged nothing")


SAN_KINDS = ["drop_index", "drop_view", "drop_table", "add_table", "add_view", "add_index", "add_column", "rename_table", "rename_column",
             "drop_column"]


def sanitizer_stage(ctx):
    """verify() on deviating libraries inside the ASan+UBSan+libstdc++-assertions build: the comparison code walks listings that are
    shorter, longer or differently named than it expects, which is where an iterator gets dereferenced at the end.  The cases are
    self-contained (the library is created, filled and then changed by a second connection inside the executor: `deviate`); the
    deviation appears before a reload or while the handles are still open.  Verdict: verify() throws database_inconsistency, and
    nothing is reported by the sanitizers."""
    from .. import gen_snap as GS
    per = 20 if ctx.tier == "quick" else 200
    cases, meta = [], {}
    n = 0
    for schema in ALL_SCHEMAS:
        v2 = is_v2(schema)
        for k in range(per):
            kind = SAN_KINDS[k % len(SAN_KINDS)]
            d = "@W/san%d" % n
            rel = "Database2/m.db" if v2 else ("m.db" if (k // len(SAN_KINDS)) % 2 == 0 else "p.db")
            held = k % 3 == 0
            ops = [{"op": "create", "schema": schema, "dir": d},
                   {"op": "create_track", "as": "t0", "snap": GS.gen_snapshot(ctx.rng, schema, rich=True, hostile_sentinels=False)},
                   {"op": "create_root_crate", "name": GS.hx("A"), "as": "cA"}, {"op": "add_track", "c": "cA", "t": "t0"}, {"op": "verify"}]
            if not held:
                ops.append({"op": "release_all"})
            ops.append({"op": "deviate", "file": d + "/" + rel, "kind": kind, "pick": ctx.rng.randrange(0, 1000)})
            if not held:
                ops.append({"op": "load", "dir": d})
            ops.append({"op": "verify"})
            cid = "san%d" % n
            meta[cid] = (schema, rel, kind, held)
            cases.append({"id": cid, "schema": schema, "ops": ops, "no_disk": True, "no_tz": True})
            n += 1

    def on_result(r):
        judge_san(ctx, r, *meta[r.case["id"]])

    runner.run_cases(cases, cfg="san", on_result=on_result, stall_timeout=120)
    if not ctx.extra.get("deviations_verified_under_the_sanitizers"):
        ctx.fail_harness("the sanitizer stage judged nothing")


def judge_san(ctx, r, schema, rel, kind, held):
    fam = "v2" if is_v2(schema) else "v1"
    ops = r.case["ops"]
    wit = {"schema": schema, "file": rel, "san": True, "kind": kind, "held": held, "ops": ops}
    if r.crash:
        c = r.crash
        i = c["op_index"]
        name = ops[i]["op"] if 0 <= i < len(ops) else "?"
        if name in ("verify", "load"):
            ctx.count()
            ctx.violation(f"verify-crashes san:{kind} {c['kind']}", f"{schema}: {name}() on a library whose {rel} deviates ({kind}) died under the sanitizers: "
                          f"{c['kind']} in {c['site']}", dict(wit, stderr=c.get("stderr", "")[:1200]))
        else:
            ctx.fail_harness("sanitizer stage: death in %s: %s" % (name, c["kind"]))
        return
    ev = r.events
    di = next(i for i, o in enumerate(ops) if o["op"] == "deviate")
    if any("exc" in e for e in ev[:di]) or "exc" in ev[di]:
        ctx.fail_harness("sanitizer stage: set-up failed for %s %s" % (schema, kind))
        return
    done = ev[di]["ret"]
    if not done or str(done[0]).startswith("refused"):
        ctx.bump_in("sanitizer_stage_not_applicable", kind)
        return
    if not held and "exc" in ev[di + 1]:
        ctx.bump_in("mutations_make_library_unloadable", "san:" + kind)
        return
    ctx.count()
    ctx.nontriv("san|%s|%s|%s|%s" % (schema, rel, kind, done[0]))
    ctx.bump_in("deviations_verified_under_the_sanitizers", kind)
    e = ev[-1]
    if "exc" not in e:
        ctx.violation(f"deviation-not-reported {fam} san:{kind} {rel.split('/')[-1]}",
                      f"{schema}: verify() accepts a library after another connection ran {done} on {rel}", wit)
    elif "database_inconsistency" not in e["exc"].get("is", []):
        ctx.violation(f"deviation-wrong-exception san:{kind} {e['exc']['type']}",
                      f"{schema}: verify() reports {done} with {e['exc']['type']} instead of database_inconsistency", wit)


def replay(ctx, doc):
    r = doc["replay"]
    if r.get("san"):
        res = runner.run_one({"id": "replay", "schema": r["schema"], "ops": r["ops"], "no_disk": True, "no_tz": True}, cfg="san", stall_timeout=120)
        judge_san(ctx, res, r["schema"], r["file"], r["kind"], r.get("held", False))
        return
    if r.get("live"):
        run(ctx)
        return
    if "mutation" not in r:
        run(ctx)
        return
    root = runner.scratch_dir("djc17r_")
    try:
        t = os.path.join(root, "tmpl")
        os.makedirs(t)
        ops = [{"op": "create", "schema": r["schema"], "dir": t}]
        if r.get("populated"):
            from .. import gen_snap as GS
            for j in range(3):
                ops.append({"op": "create_track", "as": "t%d" % j, "snap": GS.gen_snapshot(ctx.rng, r["schema"], rich=True, hostile_sentinels=False)})
            ops += [{"op": "create_root_crate", "name": GS.hx("A"), "as": "cA"}, {"op": "create_sub_crate", "c": "cA", "name": GS.hx("B"), "as": "cB"},
                    {"op": "add_track", "c": "cA", "t": "t0"}, {"op": "add_track", "c": "cB", "t": "t1"}, {"op": "add_track", "c": "cB", "t": "t2"}]
        runner.run_cases([{"id": "t", "ops": ops + [{"op": "release_all"}]}], cfg="plain")
        c = os.path.join(root, "copy")
        kept, why = _prepare((t, c, r["file"], tuple(r["mutation"])))
        if not kept:
            ctx.fail_harness("mutation no longer applies: " + why)
            return
        res = runner.run_one({"id": "x", "ops": [{"op": "load", "dir": c}, {"op": "verify"}, {"op": "release_all"}]}, cfg="plain")
        ctx.count()
        ev = res.events
        if len(ev) > 1 and "exc" not in ev[0] and "exc" not in ev[1]:
            fam = "v2" if is_v2(r["schema"]) else "v1"
            m = tuple(r["mutation"])
            ctx.violation(f"deviation-not-reported {fam} {mut_name(m)} {r['file'].split('/')[-1]} {m[1] if len(m) > 1 else ''}", "verify() accepts the mutated library", r)
    finally:
        shutil.rmtree(root, ignore_errors=True)
