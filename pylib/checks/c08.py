"""C08 - crate contents are exactly the tracks added and not removed.
C09 (see c09.py) reuses this module's history machinery with the ordered oracle.

Reference model: a relation M of (crate id, track id) pairs (C08) and, for 2.x,
ordered sibling lists and ordered entry lists (C09).  After every step the
observed crate.tracks() of every live crate, and track.containing_crates() of
every live track where supported, must equal the model."""
from .. import forest as FO, runner
from ..framework import ALL_SCHEMAS, V2_SCHEMAS, family, is_v2

LEVEL = "exploration"
RULE = ("histories over 3-5 crates and 4-8 tracks that first de-synchronise the track, crate and membership id spaces "
        "(create and remove tracks and crates, scrambled adds) and then interleave add_track, remove_track (from crate), "
        "clear_tracks, database::remove_track, remove_crate, create/re-create of tracks and crates, re-adds and "
        "removes of absent tracks; observed after every step; non-trivial = track, crate and membership id spaces "
        "differ when the first membership op runs and the history has >= 8 membership ops; distinct by canonical history")

OBS = {"op": "observe_all", "snapshots": False}
TOBS = {"op": "table_observe", "rows": False}


def gen_history(rng, schema, n_ops, ordered=False):
    st = FO.GenState(schema)
    ops, metas = [], []

    def push(pair):
        op, meta = pair
        if op is not None:
            ops.append(op)
            metas.append(meta)

    # de-synchronise the id spaces
    for _ in range(rng.randrange(2, 5)):
        push(FO.gen_track_create(rng, st))
    for h in list(st.tracks)[: rng.randrange(1, 3)]:
        st.tracks[h] = False
        push(({"op": "remove_track", "t": h}, {"kind": "remove_track", "t": h}))
    for _ in range(rng.randrange(2, 4)):
        push(FO.gen_crate_op(rng, st, hostile=False))
    for _ in range(rng.randrange(2, 4)):
        push(FO.gen_track_create(rng, st))
    for _ in range(n_ops):
        r = rng.random()
        if r < 0.22:
            push(FO.gen_crate_op(rng, st, hostile=False))
        elif r < 0.28 and is_v2(schema):
            push(FO.gen_foreign_reorder(rng, st))
        elif r < 0.34 and not is_v2(schema) and st.live_tracks():
            # 1.x: lists of the other kinds (playlist, history, prepare list - only Engine writes them) that hold one of the tracks
            # and whose id coincides with a crate's; they are not crates and what the crates contain is not affected
            push(({"op": "foreign_rows", "t": rng.choice(st.live_tracks()), "list_id": rng.choice([1, 2, 3, 4, 5, 6])}, {"kind": "foreign_marks"}))
        elif r < 0.31 and is_v2(schema):
            # entity columns only Engine DJ writes (the membership reference that ties a parent list's entry to a child list's):
            # set by SQL on every / every other entry; what the crates contain is not affected
            push(({"op": "raw_exec", "sql": "UPDATE PlaylistEntity SET membershipReference = %d%s" %
                   (rng.choice([1, 2, 7, 2 ** 31]), rng.choice(["", " WHERE id % 2 = 0", " WHERE id % 2 = 1"]))},
                  {"kind": "foreign_marks"}))
        else:
            push(FO.gen_membership_op(rng, st))
    return ops, metas


def wrap_case(cid, schema, ops, metas, ordered, first_id=None):
    """first_id (2.x): the AUTOINCREMENT counters start there, as in a long-lived or merged library."""
    v2 = is_v2(schema)
    create = {"op": "lib_create_temporary", "schema": schema} if (ordered and v2) else {"op": "create_temporary", "schema": schema}
    full = [create, {"op": "note", "names": [FO.hx(n) for n in FO.VALID_NAMES]}]
    index = [None, None]
    if first_id is not None:
        from .. import gen_hist as GH
        pre = GH.first_id_prelude(schema, first_id)
        full += pre
        index += [None] * len(pre)
    for i, op in enumerate(ops):
        full.append(op)
        index.append(i)
        full.append(OBS)
        index.append(None)
        if ordered and v2:
            full.append(TOBS)
            index.append(None)
    from ..framework import schema_tuple
    seed = (first_id - 1) if (first_id is not None and not v2 and schema_tuple(schema) < (1, 17, 0)) else None
    return {"id": cid, "schema": schema, "ops": full, "_metas": metas, "_index": index, "_ordered": ordered, "_seed_track": seed}


def removed_keep_order(old, new, gone):
    """new must be old minus the elements of `gone`, order kept."""
    return [x for x in old if x not in gone] == list(new)


def judge_case(ctx, res, pid="C08"):
    case = res.case
    schema = case["schema"]
    fam = family(schema)
    ordered = case["_ordered"]
    ops, metas, index = case["ops"], case["_metas"], case["_index"]
    ctx.bump_in("cases_by_schema", schema)
    wit = {"schema": schema, "ops": [o for o in ops if o["op"] not in ("observe_all", "note", "create_temporary", "lib_create_temporary", "table_observe")]}
    evs = res.events
    hid = {}            # handle -> id
    live_c, live_t = set(), set()
    if case.get("_seed_track") is not None:
        live_t.add(case["_seed_track"])   # the bystander track the id prelude leaves behind (1.x before 1.17.0)
    M = set()           # (crate id, track id)
    order = {}          # crate id -> ordered track ids (C09)
    sib = {None: []}    # parent id|None -> ordered child ids (C09)
    parent = {}         # crate id -> parent id|None
    n_member_ops = 0
    desync = None
    k = 0
    while k < len(evs):
        op = ops[k]
        if op["op"] != "observe_all":
            k += 1
            continue
        ev = evs[k]
        src = index[k - 1]
        meta = metas[src] if src is not None else None
        act = evs[k - 1]
        if "exc" in ev:
            ctx.fail_harness("observe_all failed: %s" % ev["exc"]["type"])
            return
        obs = ev["ret"]
        from ..framework import held_handles
        if held_handles(ctx, obs, fam, schema, wit):
            return
        tobs = None
        if ordered and k + 1 < len(evs) and ops[k + 1]["op"] == "table_observe":
            if "exc" in evs[k + 1]:
                ctx.fail_harness("table_observe failed")
                return
            tobs = evs[k + 1]["ret"]
        k += 1
        if meta is None:
            continue
        ctx.count()
        kind = meta["kind"]
        ctx.bump_in("ops", kind if kind != "create" else "create_crate")
        threw = "exc" in act
        if threw and "harness_error" in act["exc"].get("is", []):
            ctx.bump("ops_skipped_missing_handle")
            continue
        # out-of-contract: handles of removed entities
        refs_c = [meta.get(x) for x in ("c", "parent", "after")] + ([meta.get("h")] if kind in ("set_name", "set_parent", "remove_crate") else [])
        refs_t = [meta.get("t")] if kind != "create_track" else []
        if any(r is not None and hid.get(r) not in live_c for r in refs_c) or \
           any(r is not None and hid.get(r) not in live_t for r in refs_t):
            ctx.bump("cases_stopped_at_out_of_contract_call")
            break
        if threw and not act["exc"].get("std", True):
            ctx.violation(f"non-std-exception {fam} {kind}", f"{kind} threw a non-std exception", wit)
        crates_now = obs["db"]["crates"]
        tracks_now = obs["db"]["tracks"]
        if FO.is_exc(crates_now) or FO.is_exc(tracks_now):
            ctx.violation(f"listing-throws {fam} after-{kind}", f"{schema}: crates()/tracks() throws after {kind}", wit)
            break
        # ---- expected model update
        expM = set(M)
        exp_order = {c: list(v) for c, v in order.items()}
        exp_sib = {p: list(v) for p, v in sib.items()}
        placed_free = None      # (parent, id) whose position is not specified
        placed_after = None     # (parent, id, after id)
        if not threw:
            if kind == "create_track":
                hid[meta["h"]] = act["ret"]
                live_t.add(act["ret"])
            elif kind == "create":
                nid = act["ret"]
                hid[meta["h"]] = nid
                live_c.add(nid)
                p = hid.get(meta["parent"]) if meta["parent"] else None
                parent[nid] = p
                exp_order[nid] = []
                exp_sib.setdefault(nid, [])
                if meta.get("after") and is_v2(schema):
                    placed_after = (p, nid, hid.get(meta["after"]))
                else:
                    placed_free = (p, nid)
            elif kind == "foreign_reorder_entries":
                c = hid[meta["c"]]
                lst = exp_order.get(c, [])
                if ordered and (act["ret"]["items"] != len(lst) or act["ret"]["moved"] != (len(lst) >= 2)):
                    ctx.fail_harness("foreign_reorder saw %s entries, the model has %d" % (act["ret"], len(lst)))
                    return
                if act["ret"]["moved"] and len(lst) >= 2:
                    exp_order[c] = [lst[-1]] + lst[:-1]
                ctx.bump("foreign_reorders_applied", 1 if act["ret"]["moved"] else 0)
            elif kind == "foreign_reorder_siblings":
                p = hid.get(meta["parent"]) if meta["parent"] else None
                lst = exp_sib.get(p, [])
                if act["ret"]["moved"]:
                    mid = act["ret"]["moved_id"]
                    if ordered and (not lst or lst[-1] != mid):
                        ctx.fail_harness("foreign_reorder moved sibling %s, the model's last sibling is %s" % (mid, lst[-1:] ))
                        return
                    exp_sib[p] = [mid] + [x for x in lst if x != mid]
                ctx.bump("foreign_reorders_applied", 1 if act["ret"]["moved"] else 0)
            elif kind == "add_track":
                c, t = hid[meta["c"]], hid[meta["t"]]
                if (c, t) not in expM:
                    expM.add((c, t))
                    exp_order.setdefault(c, []).append(t)
                n_member_ops += 1
            elif kind == "remove_track_from":
                c, t = hid[meta["c"]], hid[meta["t"]]
                expM.discard((c, t))
                exp_order[c] = [x for x in exp_order.get(c, []) if x != t]
                n_member_ops += 1
            elif kind == "clear_tracks":
                c = hid[meta["c"]]
                expM = {(a, b) for a, b in expM if a != c}
                exp_order[c] = []
                n_member_ops += 1
            elif kind == "remove_track":
                t = hid[meta["t"]]
                expM = {(a, b) for a, b in expM if b != t}
                for c in exp_order:
                    exp_order[c] = [x for x in exp_order[c] if x != t]
                live_t.discard(t)
                n_member_ops += 1
            elif kind == "remove_crate":
                c = hid[meta["h"]]
                gone = {x for x in live_c if x not in set(crates_now)}
                if c not in gone:
                    ctx.violation(f"removed-crate-still-listed {fam}", f"{schema}: remove_crate returned but crates() still lists the crate", wit)
                    break
                # crates that went away with it must lie below it; a crate elsewhere in the forest that vanishes takes memberships
                # with it that nobody removed
                below = set()
                frontier = [c]
                while frontier:
                    x = frontier.pop()
                    for y, py in parent.items():
                        if py == x and y not in below:
                            below.add(y)
                            frontier.append(y)
                unrelated = sorted(g for g in gone if g != c and g not in below)
                lost = sorted((a, b) for a, b in expM if a in unrelated)
                if unrelated and lost:
                    ctx.violation(f"membership-lost-with-unrelated-crate {fam} after-remove_crate",
                                  f"{schema}: remove_crate({c}) also made crate(s) {unrelated} vanish, which are not below it, and with them the "
                                  f"memberships {lost[:6]} that nobody removed", wit)
                    break
                live_c -= gone
                expM = {(a, b) for a, b in expM if a not in gone}
                for g in gone:
                    exp_order.pop(g, None)
                    exp_sib.pop(g, None)
                    parent.pop(g, None)
                for p in exp_sib:
                    exp_sib[p] = [x for x in exp_sib[p] if x not in gone]
            elif kind == "set_parent":
                c = hid[meta["h"]]
                p = hid.get(meta["parent"]) if meta["parent"] else None
                if parent.get(c) != p:
                    exp_sib[parent.get(c)] = [x for x in exp_sib.get(parent.get(c), []) if x != c]
                    parent[c] = p
                    placed_free = (p, c)
        if desync is None and kind in ("add_track", "remove_track_from", "clear_tracks"):
            mc = max(live_c) if live_c else 0
            mt = max(live_t) if live_t else 0
            desync = (mc != mt)
        if set(crates_now) != live_c or set(tracks_now) != live_t:
            # liveness itself is C07's / the track listing's concern; resynchronise or stop
            if set(tracks_now) != live_t:
                ctx.violation(f"track-listing-mismatch {fam} after-{kind}",
                              f"{schema}: tracks() = {sorted(tracks_now)} but live tracks are {sorted(live_t)}", wit)
            break
        # ---- C08: set semantics
        bad = False
        for c in sorted(live_c):
            o = obs["crates"].get(str(c))
            got = o["tracks"] if o else None
            if got is None or FO.is_exc(got):
                ctx.violation(f"tracks-throws {fam} after-{kind}", f"{schema}: tracks() of a live crate throws after {kind}", wit)
                bad = True
                continue
            want = {t for a, t in expM if a == c}
            if len(set(got)) != len(got):
                ctx.violation(f"tracks-duplicate {fam} after-{kind}", f"{schema}: crate {c} lists a track twice: {got}", wit)
                bad = True
            dead = [t for t in got if t not in live_t]
            if dead:
                ctx.violation(f"tracks-lists-removed-track {fam} after-{kind}",
                              f"{schema}: crate {c}.tracks() = {got} contains removed track(s) {dead}", wit)
                bad = True
            elif set(got) != want:
                rule = "throwing-op-has-effect" if threw else "membership-mismatch"
                ctx.violation(f"{rule} {fam} after-{kind}",
                              f"{schema}: after {kind}{' (which threw)' if threw else ''} crate {c}.tracks() = {sorted(got)} "
                              f"but the tracks added and not removed are {sorted(want)}", wit)
                bad = True
            if ordered and not bad:
                # C09 entries: insertion order
                if list(got) != exp_order.get(c, []):
                    ctx.violation(f"entry-order {fam} after-{kind}",
                                  f"{schema}: crate {c}.tracks() = {got}, expected insertion order {exp_order.get(c, [])}", wit)
                    bad = True
        if not is_v2(schema):
            for t in sorted(live_t):
                o = obs["tracks"].get(str(t))
                got = o["containing_crates"] if o else None
                if got is None or FO.is_exc(got):
                    ctx.violation(f"containing_crates-throws {fam}", f"{schema}: containing_crates() throws on a live track", wit)
                    bad = True
                    continue
                want = {a for a, b in expM if b == t}
                if len(set(got)) != len(got) or set(got) != want:
                    ctx.violation(f"containing_crates-mismatch {fam} after-{kind}",
                                  f"{schema}: track {t}.containing_crates() = {sorted(got)} but it was added to {sorted(want)}", wit)
                    bad = True
            ctx.bump("converse_checks")
        else:
            ctx.bump("converse_skipped_not_supported")
        # ---- C09: sibling order
        if ordered and not bad:
            lists = {None: obs["db"]["root_crates"]}
            for c in live_c:
                lists[c] = obs["crates"][str(c)]["children"]
            for p, got in lists.items():
                if FO.is_exc(got):
                    ctx.violation(f"listing-throws {fam} after-{kind}", f"{schema}: sibling listing throws after {kind}", wit)
                    bad = True
                    continue
                want_set = {x for x in live_c if parent.get(x) == p}
                if len(set(got)) != len(got) or set(got) != want_set:
                    ctx.violation(f"sibling-lost-or-duplicated {fam} after-{kind}",
                                  f"{schema}: siblings under {p} listed as {got}, expected exactly {sorted(want_set)}", wit)
                    bad = True
                    continue
                old = exp_sib.get(p, [])
                skip = set()
                if placed_free and placed_free[0] == p:
                    skip.add(placed_free[1])
                if placed_after and placed_after[0] == p:
                    skip.add(placed_after[1])
                if [x for x in got if x not in skip] != [x for x in old if x not in skip]:
                    ctx.violation(f"sibling-order-changed {fam} after-{kind}",
                                  f"{schema}: {kind} reordered the remaining siblings under {p}: {old} -> {got}", wit)
                    bad = True
                if placed_after and placed_after[0] == p:
                    _, nid, aft = placed_after
                    if aft in got and nid in got and got.index(nid) != got.index(aft) + 1:
                        ctx.violation(f"created-after-misplaced {fam} after-{kind}",
                                      f"{schema}: crate {nid} created after {aft} is listed as {got}", wit)
                        bad = True
                exp_sib[p] = list(got)
            if tobs is not None and not bad:
                if list(tobs["root_ids"]) != list(obs["db"]["root_crates"]):
                    ctx.violation(f"table-listing-disagrees {fam} root_ids", f"{schema}: root_ids() = {tobs['root_ids']} but root_crates() = {obs['db']['root_crates']}", wit)
                for c in live_c:
                    pl = tobs["playlists"].get(str(c))
                    if pl is None:
                        ctx.violation(f"table-listing-disagrees {fam} all_ids", f"{schema}: playlist all_ids() lacks live crate {c}", wit)
                        continue
                    if list(pl["child_ids"]) != list(obs["crates"][str(c)]["children"]):
                        ctx.violation(f"table-listing-disagrees {fam} child_ids", f"{schema}: child_ids({c}) = {pl['child_ids']} but children() = {obs['crates'][str(c)]['children']}", wit)
                    ents = pl["entities"]
                    if FO.is_exc(ents) or [e["track_id"] for e in ents] != exp_order.get(c, []):
                        ctx.violation(f"table-listing-disagrees {fam} get_for_list", f"{schema}: get_for_list({c}) differs from the insertion order {exp_order.get(c, [])}", wit)
                    elif len({e["id"] for e in ents}) != len(ents):
                        ctx.violation(f"table-listing-disagrees {fam} entity-ids", f"{schema}: get_for_list({c}) repeats an entity", wit)
                ctx.bump("table_listing_checks")
        if bad:
            break
        ctx.state("distinct_membership_states_observed", repr((sorted(expM), sorted((k, tuple(v)) for k, v in exp_order.items()) if ordered else None)))
        M, order, sib = expM, exp_order, exp_sib
    if res.crash:
        c = res.crash
        if c["op_index"] < 0:
            ctx.fail_harness("executor died outside any op: %s" % c["kind"])
            return
        i = c["op_index"]
        src = index[i] if i < len(index) else None
        if src is None:
            j = i - 1
            while j >= 0 and index[j] is None:
                j -= 1
            od = "observe-after-" + (metas[index[j]]["kind"] if j >= 0 else "?")
        else:
            od = metas[src]["kind"]
        ctx.violation(f"op-did-not-complete {fam} {od} {c['kind']} at={c['site']}",
                      f"{schema}: {od} did not complete: {c['kind']} in {c['site']}", dict(wit, crash=c["kind"]))
    if desync and n_member_ops >= 8:
        ctx.nontriv({"schema": schema, "ops": wit["ops"]})


def scale_case(cid, rng, schema, n_tracks=160, huge_ids=False):
    """Many tracks in two crates: bulk adds in scrambled order, removal of every other entry, removal of tracks
    from the database, re-adds; judged once at the end against sets (and insertion order on 2.x)."""
    ops = [{"op": "create_temporary", "schema": schema}]
    if huge_ids and is_v2(schema):
        # ids beyond 32 bits: the AUTOINCREMENT counters are advanced as a foreign writer with a long history would leave them
        ops.append({"op": "create_track", "as": "tseed", "snap": {"relative_path": FO.hx("bulk/seed.mp3")}})
        ops.append({"op": "create_root_crate", "name": FO.hx("seed"), "as": "cseed"})
        ops.append({"op": "add_track", "c": "cseed", "t": "tseed"})
        ops.append({"op": "raw_exec", "sql": "UPDATE sqlite_sequence SET seq = 4294967301 WHERE name IN ('Track', 'Playlist', 'PlaylistEntity')"})
    for i in range(n_tracks):
        ops.append({"op": "create_track", "as": "t%d" % i, "snap": {"relative_path": FO.hx("bulk/track %04d.mp3" % i)}})
    ops.append({"op": "create_root_crate", "name": FO.hx("A"), "as": "cA"})
    ops.append({"op": "create_root_crate", "name": FO.hx("B"), "as": "cB"})
    A, B = [], []
    order = list(range(n_tracks))
    rng.shuffle(order)
    for i in order:
        ops.append({"op": "add_track" if i % 3 else "add_track_via_id", "c": "cA", "t": "t%d" % i})
        A.append(i)
        if i % 2 == 0:
            ops.append({"op": "add_track", "c": "cB", "t": "t%d" % i})
            B.append(i)
    for i in list(A)[::2]:
        ops.append({"op": "remove_track_from", "c": "cA", "t": "t%d" % i})
        A.remove(i)
    gone = rng.sample(range(n_tracks), 15)
    for i in gone:
        ops.append({"op": "remove_track", "t": "t%d" % i})
        if i in A:
            A.remove(i)
        if i in B:
            B.remove(i)
    back = [i for i in order[:20] if i not in gone and i not in A]
    for i in back:
        ops.append({"op": "add_track", "c": "cA", "t": "t%d" % i})
        A.append(i)
    tail = len(ops)
    ops += [{"op": "crate_query", "c": "cA", "q": "tracks"}, {"op": "crate_query", "c": "cB", "q": "tracks"}, {"op": "db_query", "q": "tracks"}]
    return {"id": cid, "schema": schema, "ops": ops, "_scale": {"A": A, "B": B, "gone": gone, "n": n_tracks, "tail": tail}}


def subtree_case(cid, rng, schema, n_subs=620):
    """A root with hundreds of sub-crates (flat and nested) that all hold tracks is removed in one call; the tracks'
    remaining memberships, and crates created afterwards (whose ids may be recycled on 1.x), are judged at the end."""
    ops = [{"op": "create_temporary", "schema": schema}, {"op": "set_budget", "vdbe": 4 * 10 ** 9}]
    nt = 24
    for i in range(nt):
        ops.append({"op": "create_track", "as": "t%d" % i, "snap": {"relative_path": FO.hx("sub/track %02d.mp3" % i)}})
    ops.append({"op": "create_root_crate", "name": FO.hx("keep"), "as": "ckeep"})
    ops.append({"op": "create_root_crate", "name": FO.hx("doomed"), "as": "cR"})
    keep = [i for i in range(nt) if i % 3 != 1]
    for i in keep:
        ops.append({"op": "add_track", "c": "ckeep", "t": "t%d" % i})
    subs = []
    for k in range(n_subs):
        h = "s%d" % k
        # mostly flat, every 9th nested under an earlier sub-crate
        p = "cR" if (k % 9 or not subs) else rng.choice(subs)
        ops.append({"op": "create_sub_crate", "c": p, "name": FO.hx("sub %04d" % k), "as": h})
        subs.append(h)
        ops.append({"op": "add_track", "c": h, "t": "t%d" % (k % nt)})
        ops.append({"op": "add_track", "c": h, "t": "t0"})
    ops.append({"op": "remove_crate", "c": "cR"})
    after = []
    for k in range(6):
        h = "n%d" % k
        ops.append({"op": "create_root_crate", "name": FO.hx("new %d" % k), "as": h})
        after.append(h)
    tail = len(ops)
    ops.append({"op": "db_query", "q": "crates"})
    ops.append({"op": "crate_query", "c": "ckeep", "q": "tracks"})
    for h in after:
        ops.append({"op": "crate_query", "c": h, "q": "tracks"})
    for i in range(nt):
        ops.append({"op": "containing_crates", "t": "t%d" % i})
    ops.append({"op": "rawdump", "checks": False, "views": ["Crate", "CrateTrackList"]})
    return {"id": cid, "schema": schema, "ops": ops, "_scale": True,
            "_subtree": {"n_subs": n_subs, "nt": nt, "keep": keep, "after": after, "tail": tail}}


def judge_subtree(ctx, res):
    case = res.case
    schema = case["schema"]
    fam = family(schema)
    sc = case["_subtree"]
    ctx.count()
    ctx.bump("subtree_removal_cases")
    ctx.extra["subtree_removal_max_crates"] = max(ctx.extra.get("subtree_removal_max_crates", 0), sc["n_subs"] + 1)
    wit = {"schema": schema, "subtree": {"sub_crates": sc["n_subs"]}, "ops": case["ops"][-45:]}
    evs = res.events
    if res.crash or len(evs) < len(case["ops"]):
        ctx.violation(f"op-did-not-complete {fam} subtree-removal", f"{schema}: removing a crate with {sc['n_subs']} sub-crates did not complete", wit)
        return
    hid = {}
    for k, op in enumerate(case["ops"]):
        if "as" in op and "ret" in evs[k]:
            hid[op["as"]] = evs[k]["ret"]
        if "exc" in evs[k] and k < sc["tail"]:
            ctx.violation(f"bulk-op-throws {fam} {op['op']}", f"{schema}: {op['op']} threw {evs[k]['exc']['type']} in the subtree-removal case", wit)
            return
    k = sc["tail"]
    crates = evs[k].get("ret")
    want_crates = sorted([hid["ckeep"]] + [hid[h] for h in sc["after"]])
    if crates is None or sorted(crates) != want_crates:
        ctx.violation(f"subtree-removal-leaves-crates {fam}", f"{schema}: after removing the root of {sc['n_subs']} sub-crates, crates() has "
                      f"{len(crates or [])} entries instead of {len(want_crates)}", wit)
    got_keep = evs[k + 1].get("ret")
    if got_keep is None or sorted(got_keep) != sorted(hid["t%d" % i] for i in sc["keep"]):
        ctx.violation(f"bystander-crate-changed {fam} subtree-removal", f"{schema}: an unrelated crate's tracks changed when a big subtree was removed", wit)
    k += 2
    for j, h in enumerate(sc["after"]):
        got = evs[k + j].get("ret")
        if got is None or got != []:
            ctx.violation(f"new-crate-not-empty {fam} subtree-removal", f"{schema}: a crate created after the removal of a big subtree "
                          f"starts with tracks {got}", wit)
            break
    k += len(sc["after"])
    for i in range(sc["nt"]):
        e = evs[k + i]
        if "exc" in e:
            if not is_v2(schema):
                ctx.violation(f"containing_crates-throws {fam}", f"{schema}: containing_crates() throws on a live track", wit)
            continue
        want = [hid["ckeep"]] if i in sc["keep"] else []
        if sorted(e["ret"]) != want:
            ctx.violation(f"containing_crates-mismatch {fam} subtree-removal", f"{schema}: after removing every other crate that held it, "
                          f"track {i}.containing_crates() = {sorted(e['ret'])[:6]}, expected {want}", wit)
            break
    e = evs[k + sc["nt"]]
    if "ret" in e:
        from .. import rawread as RR
        v2 = is_v2(schema)
        mem = RR.table(e["ret"], "PlaylistEntity" if v2 else "CrateTrackList")
        cr = RR.table(e["ret"], "Playlist" if v2 else "Crate")
        if mem is None or cr is None:
            ctx.fail_harness("membership tables not readable in the subtree-removal case")
            return
        ids = {c["id"] for c in cr}
        stale = [m for m in mem if m["listId" if v2 else "crateId"] not in ids]
        ctx.bump("subtree_removal_membership_rows_checked", len(mem))
        if stale:
            ctx.violation(f"membership-rows-of-removed-crate-remain {fam} subtree-removal",
                          f"{schema}: {len(stale)} stored membership rows still name crates removed with the subtree", wit)


def shared_case(cid, rng, schema, n_ops=24):
    """One on-disk library opened twice in the same process: membership and crate operations go through either database
    object; after every step both must describe the same crates, memberships and (on 1.x) converse relation."""
    d = "@W/" + cid
    ops = [{"op": "create", "schema": schema, "dir": d}]
    for t in range(4):
        ops.append({"op": "create_track", "as": "t%d" % t, "snap": {"relative_path": FO.hx("sh/%d.mp3" % t)}, "bind": "tid%d" % t})
    ops.append({"op": "create_root_crate", "name": FO.hx("A"), "as": "c0", "bind": "cid0"})
    ops.append({"op": "create_root_crate", "name": FO.hx("B"), "as": "c1", "bind": "cid1"})
    ops.append({"op": "create_sub_crate", "c": "c0", "name": FO.hx("C"), "as": "c2", "bind": "cid2"})
    ops.append({"op": "load", "dir": d, "lib": 1})
    for t in range(4):
        ops.append({"op": "track_by_id", "id": "$tid%d" % t, "as": "t%d" % t, "lib": 1})
    for c in range(3):
        ops.append({"op": "crate_by_id", "id": "$cid%d" % c, "as": "c%d" % c, "lib": 1})
    obs = {"op": "observe_all", "snapshots": False}
    obs_b = {"op": "observe_all_b", "snapshots": False}
    ops += [dict(obs), dict(obs_b)]
    steps = []
    for k in range(n_ops):
        r = rng.random()
        c, t = "c%d" % rng.randrange(3), "t%d" % rng.randrange(4)
        if r < 0.5:
            op = {"op": "add_track", "c": c, "t": t}
        elif r < 0.8:
            op = {"op": "remove_track_from", "c": c, "t": t}
        elif r < 0.9:
            op = {"op": "clear_tracks", "c": c}
        else:
            op = {"op": "set_name", "c": c, "name": FO.hx("N%d" % k)}
        if rng.random() < 0.5:
            op["lib"] = 1
        steps.append(len(ops))
        ops += [op, dict(obs), dict(obs_b)]
    return {"id": cid, "schema": schema, "ops": ops, "_scale": True, "_shared": steps}


def judge_shared(ctx, res):
    case = res.case
    schema = case["schema"]
    fam = family(schema)
    ops = case["ops"]
    ctx.bump("shared_directory_cases")
    wit = {"schema": schema, "ops": [o for o in ops if not o["op"].startswith("observe_all")]}
    if res.crash:
        c = res.crash
        ctx.violation(f"op-did-not-complete {fam} {c.get('op')} shared-directory {c['kind']}",
                      f"{schema}: {c.get('op')} did not complete with the library opened twice: {c['kind']}", dict(wit, crash=c["kind"]))
        return
    evs = res.events
    first = case["_shared"][0]
    if any("exc" in e for e in evs[:first]):
        ctx.fail_harness("shared-directory set-up failed: %s" % [e["exc"]["type"] for e in evs[:first] if "exc" in e][:1])
        return
    from .c10 import diff_paths, generic_site
    from ..framework import held_handles
    for k in case["_shared"]:
        if k + 2 >= len(evs):
            break
        op, a, b = ops[k], evs[k + 1], evs[k + 2]
        ctx.count()
        if "exc" in a or "exc" in b:
            ctx.fail_harness("observation failed in a shared-directory case")
            return
        ctx.bump_in("shared_directory_ops_through", "second database object" if op.get("lib") else "first database object")
        if held_handles(ctx, a["ret"], fam, schema, wit, " (library opened twice)") or held_handles(ctx, b["ret"], fam, schema, wit, " (library opened twice)"):
            return
        def strip(o):
            # name-probing lookups depend on the names each slot has seen, not on the library
            return {i: {k: v for k, v in x.items() if k != "sub_crate_by_name"} for i, x in (o or {}).items()} if isinstance(o, dict) else o
        for part in ("crates", "tracks"):
            pa, pb = a["ret"].get(part), b["ret"].get(part)
            if part == "crates":
                pa, pb = strip(pa), strip(pb)
            if pa != pb:
                where = diff_paths(pa, pb)
                ctx.violation(f"database-objects-disagree {fam} {op['op']} {part} {generic_site(where[0]) if where else ''}",
                              f"{schema}: after {op['op']} through the {'second' if op.get('lib') else 'first'} of two database objects opened on "
                              f"one directory, the two disagree about {part} at {where[:3]}", wit)
                return


def judge_scale(ctx, res):
    if res.case.get("_shared") is not None:
        return judge_shared(ctx, res)
    if res.case.get("_subtree"):
        return judge_subtree(ctx, res)
    case = res.case
    schema = case["schema"]
    fam = family(schema)
    sc = case["_scale"]
    ctx.count()
    ctx.bump("scale_cases")
    wit = {"schema": schema, "scale": {"tracks": sc["n"]}, "ops": case["ops"][-40:]}
    if res.crash or len(res.events) < len(case["ops"]):
        ctx.violation(f"op-did-not-complete {fam} scale", f"{schema}: the bulk membership case did not complete", wit)
        return
    evs = res.events
    ids = {}
    for k, op in enumerate(case["ops"]):
        if op["op"] == "create_track" and "ret" in evs[k] and op["as"][1:].isdigit():
            ids[int(op["as"][1:])] = evs[k]["ret"]
        if "exc" in evs[k] and op["op"] not in ("crate_query", "db_query"):
            ctx.violation(f"bulk-op-throws {fam} {op['op']}", f"{schema}: {op['op']} threw {evs[k]['exc']['type']} in the bulk case", wit)
            return
    if ids:
        ctx.extra["scale_max_track_id_seen"] = max(ctx.extra.get("scale_max_track_id_seen", 0), max(ids.values()))
        ctx.extra["scale_max_tracks_in_one_crate"] = max(ctx.extra.get("scale_max_tracks_in_one_crate", 0), len(sc["A"]), len(sc["B"]))
    gotA, gotB, live = evs[sc["tail"]].get("ret"), evs[sc["tail"] + 1].get("ret"), evs[sc["tail"] + 2].get("ret")
    wantA = [ids[i] for i in sc["A"]]
    wantB = [ids[i] for i in sc["B"]]
    for name, got, want in (("A", gotA, wantA), ("B", gotB, wantB)):
        if got is None:
            ctx.violation(f"tracks-throws {fam} scale", f"{schema}: tracks() throws in the bulk case", wit)
            continue
        if len(set(got)) != len(got):
            ctx.violation(f"tracks-duplicate {fam} scale", f"{schema}: crate {name} lists a track twice among {len(got)}", wit)
        elif set(got) != set(want):
            extra, missing = sorted(set(got) - set(want))[:5], sorted(set(want) - set(got))[:5]
            ctx.violation(f"membership-mismatch {fam} scale", f"{schema}: crate {name} of {len(want)} tracks: unexpected {extra}, missing {missing}", wit)
        elif is_v2(schema) and list(got) != want:
            ctx.violation(f"entry-order {fam} scale", f"{schema}: crate {name} does not list its {len(want)} entries in insertion order", wit)
    if live is not None and set(live) - {x for x in live if x not in ids.values()} != {ids[i] for i in range(sc["n"]) if i not in sc["gone"]}:
        ctx.violation(f"track-listing-mismatch {fam} scale", f"{schema}: tracks() has {len(live)} entries", wit)


def run(ctx):
    per = 40 if ctx.tier == "quick" else 1500
    cases = []
    n = 0
    for schema in ALL_SCHEMAS:
        for k in range(per):
            ops, metas = gen_history(ctx.rng, schema, 25 + (k % 4) * 5)
            first = None
            if k % 6 == 3:
                from .. import gen_hist as GH
                first = GH.FIRST_IDS[(k // 6) % len(GH.FIRST_IDS)]
                ctx.bump_in("histories_with_first_id", str(first))
            cases.append(wrap_case("m%d" % n, schema, ops, metas, ordered=False, first_id=first))
            n += 1
    c0 = cases[0]
    ctx.sample({"schema": c0["schema"], "ops": [o for o in c0["ops"] if o["op"] not in ("observe_all", "note")][:12]})
    ctx.assumptions += ["order of listings is not judged here (C09)",
                        "containing_crates() is judged on 1.x only; 2.x reports 'not yet implemented' (\"where supported\")",
                        "a call on a removed handle ends the case (out of contract)"]
    for schema in ALL_SCHEMAS:
        cases.append(scale_case("sc%d" % n, ctx.rng, schema, 1100 if ctx.tier == "quick" else 2500))
        n += 1
        if is_v2(schema):
            cases.append(scale_case("sh%d" % n, ctx.rng, schema, 40, huge_ids=True))
            n += 1
        for _ in range(2 if ctx.tier == "quick" else 30):
            cases.append(shared_case("shr%d" % n, ctx.rng, schema))
            n += 1
        cases.append(subtree_case("st%d" % n, ctx.rng, schema, 620 if ctx.tier == "quick" else ctx.rng.choice([1100, 1700, 2300])))
        n += 1
    runner.run_cases(cases, cfg="plain", on_result=lambda r: judge_scale(ctx, r) if r.case.get("_scale") else judge_case(ctx, r))
    seen = set(ctx.extra.get("cases_by_schema", {}))
    if seen != set(ALL_SCHEMAS):
        ctx.fail_harness("schema versions not covered: %s" % sorted(set(ALL_SCHEMAS) - seen))
    for need in ("add_track", "remove_track_from", "clear_tracks", "remove_track", "remove_crate"):
        if not ctx.extra.get("ops", {}).get(need):
            ctx.fail_harness("operation never exercised: " + need)


def metas_from_ops(ops):
    metas = []
    for op in ops:
        o = op["op"]
        if o == "create_track":
            metas.append({"kind": "create_track", "h": op["as"]})
        elif o.startswith("create_"):
            metas.append({"kind": "create", "h": op["as"], "parent": op.get("c"), "name": op["name"], "after": op.get("after")})
        elif o == "set_name":
            metas.append({"kind": "set_name", "h": op["c"], "name": op["name"]})
        elif o == "set_parent":
            metas.append({"kind": "set_parent", "h": op["c"], "parent": op["parent"]})
        elif o == "remove_crate":
            metas.append({"kind": "remove_crate", "h": op["c"]})
        elif o in ("add_track", "add_track_via_id", "remove_track_from"):
            metas.append({"kind": "add_track" if o.startswith("add_track") else o, "c": op["c"], "t": op["t"]})
        elif o == "clear_tracks":
            metas.append({"kind": o, "c": op["c"]})
        elif o == "remove_track":
            metas.append({"kind": o, "t": op["t"]})
        elif o in ("raw_exec", "foreign_rows"):
            metas.append({"kind": "foreign_marks"})
        elif o == "foreign_reorder":
            metas.append({"kind": "foreign_reorder_entries", "c": op["c"]} if "c" in op else
                         {"kind": "foreign_reorder_siblings", "parent": op["siblings_of"]})
        else:
            metas.append(None)
    return metas


def replay(ctx, doc, ordered=False):
    r = doc["replay"]
    ops = r["ops"]
    judge_case(ctx, runner.run_one(wrap_case("replay", r["schema"], ops, metas_from_ops(ops), ordered), cfg="plain"))
