"""C18 - a row written through the 2.x table API reads back as written.

track_table / playlist_table / playlist_entity_table of engine_library on the
seven 2.x versions: add / get / update / every per-column getter and setter /
remove, with pairwise-distinct values across all same-typed columns so that a
transposed column binding cannot hide."""
from .. import gen_values as GV, gen_snap as GS, runner
from ..framework import V2_SCHEMAS, schema_tuple

LEVEL = "exploration"
RULE = ("track rows of ~48 columns with every optional both ways and pairwise-distinct values across same-typed columns "
        "(ints, doubles, strings, second-resolution time points 1970-2200, blob structs from the codec generators), "
        "playlist rows and playlist-entity rows; sequences add / get / every column getter / every column setter / "
        "update / remove over two rows, plus accessors and remove() on ids that do not exist; non-trivial = the row "
        "populates >= 30 columns with distinct values; distinct by canonical (schema, row)")

NS = 10 ** 9
OPT_INT = ["play_order", "bpm", "year", "bitrate", "file_bytes", "played_indicator", "third_party_source_id", "active_on_load_loops"]
INT = ["length", "album_art_id", "rating", "pdb_import_key", "origin_track_id", "streaming_flags"]
OPT_STR = ["title", "artist", "album", "genre", "comment", "label", "composer", "remixer", "album_art", "streaming_source", "uri"]
STR = ["path", "filename", "file_type", "origin_database_uuid"]
BOOL = ["is_played", "is_analyzed", "is_available", "is_metadata_of_packed_track_changed",
        "is_performance_data_of_packed_track_changed", "is_metadata_imported", "is_beat_grid_locked", "explicit_lyrics"]
OPT_TIME = ["time_last_played", "date_created", "date_added"]
BLOBS = {"track_data": "v2_track_data", "overview_waveform_data": "v2_overview", "beat_data": "v2_beat_data",
         "quick_cues": "v2_quick_cues", "loops": "v2_loops"}
ALL_COLS = (OPT_INT + INT + OPT_STR + STR + BOOL + OPT_TIME + ["key", "bpm_analyzed", "last_edit_time"] + list(BLOBS))


def supported(schema, col):
    t = schema_tuple(schema)
    if col == "active_on_load_loops":
        return t >= (2, 20, 1)
    if col == "last_edit_time":
        return t >= (2, 20, 3)
    return True


def rtime(rng, used):
    while True:
        s = rng.choice([0, 1, 86400, 1500000000, 2 ** 31 - 1, 2 ** 31, 7258118400]) if rng.random() < 0.2 else rng.randrange(1, 7258118400)
        if s not in used:
            used.add(s)
            return s * NS


def rblob(rng, kind):
    if kind == "v2_track_data":
        return GV.v2_track_data(rng)
    if kind == "v2_overview":
        return GV.v2_overview(rng)
    if kind == "v2_beat_data":
        return GV.v2_beat_data(rng)
    if kind == "v2_quick_cues":
        return GV.v2_quick_cues(rng, bool_flag=True)
    return GV.v2_loops(rng)


def col_value(rng, col, u, p_none=0.15):
    if col in OPT_INT:
        return None if rng.random() < p_none else GS.rint(rng, u["i"], -2 ** 62, 2 ** 62)
    if col in INT:
        return GS.rint(rng, u["i"], 1, 2 ** 40)
    if col == "key":
        return None if rng.random() < p_none else GS.rint(rng, u["i"], -2 ** 31, 2 ** 31 - 1)
    if col == "bpm_analyzed":
        return None if rng.random() < p_none else GS.rfinite(rng, u["d"], 0, 1000)
    if col in OPT_STR:
        return None if rng.random() < p_none else GS.rstring(rng, col, u["s"], allow_nul=False)
    if col == "path":
        return GS.rpath(rng, u["s"])  # UNIQUE in the schema
    if col in STR:
        return GS.rstring(rng, col, u["s"], allow_nul=False)
    if col in BOOL:
        return rng.random() < 0.5
    if col in OPT_TIME:
        return None if rng.random() < p_none else rtime(rng, u["t"])
    if col == "last_edit_time":
        return rtime(rng, u["t"])
    return rblob(rng, BLOBS[col])


ROW_NON_OPTIONAL_TIMES = ("date_created", "date_added")  # optional through the accessors, plain time_point in track_row


def gen_row(rng, u, p_none=0.15):
    r = {c: col_value(rng, c, u, p_none) for c in ALL_COLS}
    for c in ROW_NON_OPTIONAL_TIMES:
        if r[c] is None:
            r[c] = rtime(rng, u["t"])
    return r


def expected_row(schema, written, new_id, uuid, after_update):
    e = dict(written)
    e["id"] = new_id
    if written.get("origin_track_id", 0) == 0 or written.get("origin_database_uuid", "") == "":
        e["origin_track_id"] = new_id
        e["origin_database_uuid"] = uuid.encode().hex()
    if not supported(schema, "active_on_load_loops"):
        e["active_on_load_loops"] = None
    if not supported(schema, "last_edit_time"):
        e["last_edit_time"] = 0
    return e


def cmp_rows(exp, got, skip=()):
    bad = []
    for c in ["id"] + ALL_COLS:
        if c in skip:
            continue
        a, b = exp.get(c), got.get(c)
        if c in ROW_NON_OPTIONAL_TIMES:
            # track_row cannot express an absent time: a NULL column reads as the epoch
            a, b = a or 0, b or 0
        if c == "bpm_analyzed":
            if not GS.deq(a, b):
                bad.append(c)
        elif a != b:
            bad.append(c)
    return bad


def build_case(cid, rng, schema, first_id=None, fillers=0):
    """first_id: the id counters start there (a long-lived library); fillers: that many other track and playlist rows exist first."""
    u = {"i": set(), "d": set(), "s": set(), "t": set()}
    r1 = gen_row(rng, u, 0.1)
    r2 = gen_row(rng, u, 0.3)
    r3 = gen_row(rng, u, 0.2)
    if rng.random() < 0.5:
        # two tracks whose paths (and titles) differ only in letter case are two tracks
        sw = bytes.fromhex(r1["path"]).decode(errors="ignore").swapcase()
        if sw.encode().hex() != r1["path"] and sw.encode().hex() not in u["s"]:
            r2["path"] = sw.encode().hex()
            if r1.get("title"):
                r2["title"] = bytes.fromhex(r1["title"]).decode(errors="ignore").swapcase().encode().hex()
    if rng.random() < 0.3:
        r1["origin_track_id"] = 0
    if rng.random() < 0.2:
        r3["origin_database_uuid"] = ""
    ops = [{"op": "lib_create_temporary", "schema": schema}, {"op": "info_get", "bind": "uuid", "bind_field": "uuid", "bind_hex": True},
           {"op": "trk_add", "row": r1, "bind": "1"}, {"op": "trk_get", "id": "$1"},
           {"op": "trk_add", "row": r2, "bind": "2"}, {"op": "trk_get", "id": "$2"}]
    plan = [("lib",), ("info",), ("add", 1, r1), ("get_after_add", 1), ("add", 2, r2), ("get_after_add", 2)]
    pre = []
    if first_id is not None:
        from .. import gen_hist as GH
        pre += GH.first_id_prelude(schema, first_id)
    for j in range(fillers):
        pre.append({"op": "trk_add", "row": gen_row(rng, u, 0.5)})
        pre.append({"op": "pl_add", "row": {"title": GS.hx("Filler %d" % j), "parent_list_id": 0, "is_persisted": True, "next_list_id": 0,
                                            "last_edit_time": rtime(rng, u["t"]), "is_explicitly_exported": False}})
    ops[2:2] = pre
    plan[2:2] = [("pre",)] * len(pre)
    ops += [{"op": "trk_find_id_by_path", "path": r1["path"]}, {"op": "trk_find_id_by_path", "path": r2["path"]},
            {"op": "trk_find_id_by_path", "path": GS.hx("no/such/path.mp3")}]
    plan += [("find_by_path", 1), ("find_by_path", 2), ("find_by_path", None)]
    # per-column getters of row 1
    for c in ALL_COLS:
        ops.append({"op": "trk_get_col", "id": "$1", "col": c})
        plan.append(("getcol", 1, c))
    # per-column setters on row 1, checking both rows after each
    cols = list(ALL_COLS)
    rng.shuffle(cols)
    for c in cols:
        v = col_value(rng, c, u, 0.15)
        if c == "origin_track_id":
            v = GS.rint(rng, u["i"], 1, 2 ** 40)
        ops.append({"op": "trk_set_col", "id": "$1", "col": c, "value": v})
        plan.append(("setcol", 1, c, v))
        ops.append({"op": "trk_get", "id": "$1"})
        plan.append(("get_after_set", 1, c))
        ops.append({"op": "trk_get_col", "id": "$1", "col": c})
        plan.append(("getcol_after_set", 1, c))
        if rng.random() < 0.25:
            ops.append({"op": "trk_get", "id": "$2"})
            plan.append(("get_other", 2, c))
    # update row 1 with r3
    ops.append({"op": "trk_update", "row": dict(r3, id="$1")})
    plan.append(("update", 1, r3))
    ops.append({"op": "trk_get", "id": "$1"})
    plan.append(("get_after_update", 1))
    ops.append({"op": "trk_get", "id": "$2"})
    plan.append(("get_other", 2, "update"))
    # missing ids
    for c in rng.sample(ALL_COLS, 12) + ["path", "title", "track_data"]:
        ops.append({"op": "trk_get_col", "id": 999999, "col": c})
        plan.append(("missing_getcol", c))
        ops.append({"op": "trk_set_col", "id": 999999, "col": c, "value": col_value(rng, c, u, 0.0)})
        plan.append(("missing_setcol", c))
    ops.append({"op": "trk_remove", "id": 999999})
    plan.append(("missing_remove", "track"))
    ops.append({"op": "trk_remove", "id": "$1"})
    plan.append(("remove", 1))
    ops.append({"op": "trk_get", "id": "$1"})
    plan.append(("get_after_remove", 1))
    ops.append({"op": "trk_remove", "id": "$1"})
    plan.append(("missing_remove", "track-twice"))
    ops.append({"op": "trk_get", "id": "$2"})
    plan.append(("get_other", 2, "remove"))
    # playlists
    t1, t2 = rtime(rng, u["t"]), rtime(rng, u["t"])
    p1 = {"title": GS.hx("List A %d" % rng.randrange(1000)), "parent_list_id": 0, "is_persisted": True, "next_list_id": 0,
          "last_edit_time": t1, "is_explicitly_exported": rng.random() < 0.5}
    p2 = {"title": GS.hx("List B %d" % rng.randrange(1000)), "parent_list_id": 0, "is_persisted": True, "next_list_id": 0,
          "last_edit_time": t2, "is_explicitly_exported": rng.random() < 0.5}
    ops += [{"op": "pl_add", "row": p1, "bind": "p1"}, {"op": "pl_get", "id": "$p1"}, {"op": "pl_add", "row": p2, "bind": "p2"}, {"op": "pl_get", "id": "$p2"},
            {"op": "pl_get", "id": "$p1"}]
    plan += [("pl_add", 1, p1), ("pl_get_after_add", 1), ("pl_add", 2, p2), ("pl_get_after_add", 2), ("pl_get_first_after_second",)]
    p1b = dict(p1, title=GS.hx("Renamed %d" % rng.randrange(1000)), last_edit_time=rtime(rng, u["t"]),
               is_explicitly_exported=not p1["is_explicitly_exported"])
    ops += [{"op": "pl_update", "row": dict(p1b, id="$p1", next_list_id="$p2")}, {"op": "pl_get", "id": "$p1"}, {"op": "pl_get", "id": "$p2"}]
    plan += [("pl_update", 1, p1b), ("pl_get_after_update", 1), ("pl_get_other", 2)]
    # a moving update (re-parenting) with unequal flags: takes the re-link branch of update()
    p2m = dict(p2, title=GS.hx("Moved %d" % rng.randrange(1000)), parent_list_id="$p1", next_list_id=0, is_persisted=False,
               is_explicitly_exported=True, last_edit_time=rtime(rng, u["t"]))
    ops += [{"op": "pl_update", "row": dict(p2m, id="$p2")}, {"op": "pl_get", "id": "$p2"}, {"op": "pl_get", "id": "$p1"},
            {"op": "pl_child_ids", "id": "$p1"}]
    plan += [("pl_move", 2, p2m), ("pl_get_after_move", 2), ("pl_get_other_after_move", 1), ("pl_children_after_move",)]
    # entities
    e1 = {"list_id": "$p1", "track_id": "$2", "database_uuid": "$uuid", "next_entity_id": 0, "membership_reference": rng.randrange(0, 1000)}
    e2 = {"list_id": "$p1", "track_id": 424242, "database_uuid": GS.hx("foreign-uuid-%d" % rng.randrange(1000)), "next_entity_id": 0,
          "membership_reference": rng.randrange(1000, 2000)}
    ops += [{"op": "pe_add_back", "row": e1, "bind": "e1"}, {"op": "pe_get", "list": "$p1", "track": "$2"},
            {"op": "pe_add_back", "row": e2}, {"op": "pe_get", "list": "$p1", "track": 424242}, {"op": "pe_get", "list": "$p1", "track": "$2"},
            {"op": "pe_get_for_list", "list": "$p1"}]
    plan += [("pe_add", 1, e1), ("pe_get_after_add", 1), ("pe_add", 2, e2), ("pe_get_after_add", 2), ("pe_get_first_after_second",),
             ("pe_list",)]
    # a second foreign entity for the same track whose database uuid differs from e2's only in letter case: a distinct row
    e4 = dict(e2, database_uuid=GS.hx(bytes.fromhex(e2["database_uuid"]).decode().upper()), membership_reference=e2["membership_reference"] + 5000)
    ops += [{"op": "pe_add_back", "row": e4}, {"op": "pe_get_for_list", "list": "$p1"}]
    plan += [("pe_add_case_variant", e4), ("pe_list_case_variant", e2, e4)]
    # rows elsewhere that name a track id which is not in the track table (other software leaves such rows; add_back takes any
    # id): remove() of that id still names a nonexistent row
    e3 = {"list_id": "$p1", "track_id": 434343, "database_uuid": "$uuid", "next_entity_id": 0, "membership_reference": 0}
    ops += [{"op": "pe_add_back", "row": e3}, {"op": "trk_remove", "id": 434343}, {"op": "trk_remove", "id": 424242},
            {"op": "trk_get_col", "id": 434343, "col": "title"}, {"op": "pe_remove", "list": "$p1", "track": 434343}]
    plan += [("pre",), ("missing_remove", "track-referenced-by-an-entity"), ("missing_remove", "track-referenced-by-a-foreign-entity"),
             ("missing_getcol", "title"), ("pre",)]
    ops += [{"op": "pe_remove", "list": "$p1", "track": 999999}, {"op": "pe_remove", "list": 999999, "track": "$2"},
            {"op": "pl_remove", "id": 999999}, {"op": "pe_remove", "list": "$p1", "track": "$2"}, {"op": "pe_get_for_list", "list": "$p1"},
            {"op": "pl_remove", "id": "$p2"}, {"op": "pl_get", "id": "$p2"}, {"op": "pl_remove", "id": "$p2"}]
    plan += [("missing_remove", "entity"), ("missing_remove", "entity-wrong-list"), ("missing_remove", "playlist"),
             ("pe_remove",), ("pe_list_after_remove",), ("pl_remove",), ("pl_get_after_remove",), ("missing_remove", "playlist-twice")]
    # information table: the one writable column changes alone
    v = GS.rint(rng, u["i"], -2 ** 62, 2 ** 62)
    ops += [{"op": "info_get_full"}, {"op": "info_set_played", "value": v}, {"op": "info_get_full"}, {"op": "cl_all"}, {"op": "cl_last"},
            {"op": "cl_after", "id": rng.choice([0, -1, 1, 10 ** 6])}]
    plan += [("info_before",), ("info_set", v), ("info_after", v), ("cl",), ("cl",), ("cl",)]
    return {"id": cid, "schema": schema, "ops": ops, "_plan": [list(x) for x in plan], "_rows": (r1, r2, r3)}


def judge_case(ctx, res):
    case = res.case
    schema = case["schema"]
    ops, plan = case["ops"], case["_plan"]
    ctx.bump_in("cases_by_schema", schema)
    wit = {"schema": schema, "ops": ops, "plan": plan}
    if res.crash:
        c = res.crash
        ctx.violation(f"op-did-not-complete {c.get('op')} {c['kind']} at={c['site']}", f"{schema}: {c.get('op')} did not complete: {c['kind']}", wit)
        return
    info0 = None
    cur = {}       # row number -> expected current row
    ids = {}
    uuid = None
    pl = {}
    ents = {}
    for k, ev in enumerate(res.events):
        p = plan[k]
        kind = p[0]
        threw = "exc" in ev
        ret = ev.get("ret")
        if threw and "harness_error" in ev["exc"].get("is", []):
            ctx.fail_harness("harness error in %s: %s" % (kind, bytes.fromhex(ev["exc"].get("what", "")).decode(errors="replace")))
            return
        if threw and not ev["exc"].get("std", True):
            ctx.violation(f"non-std-exception {kind}", f"{schema}: {kind} threw a non-std exception", wit)
        if kind == "info":
            uuid = ret["uuid"]
        elif kind == "add":
            ctx.count()
            if threw:
                ctx.violation("add-rejects-valid-row track", f"{schema}: track_table::add threw {ev['exc']['type']} for a valid row", wit)
                return
            ids[p[1]] = ret
            cur[p[1]] = expected_row(schema, p[2], ret, uuid, False)
            n_pop = sum(1 for c in ALL_COLS if p[2].get(c) not in (None, "", False))
            if n_pop >= 30:
                ctx.nontriv({"schema": schema, "row": p[2]})
        elif kind in ("get_after_add", "get_after_update", "get_after_set", "get_other"):
            ctx.count()
            n = p[1]
            if threw or ret is None:
                ctx.violation(f"get-fails {kind}", f"{schema}: get() failed after {kind}", wit)
                return
            skip = set()
            if kind != "get_after_add":
                skip.add("last_edit_time")
            if kind == "get_other" and ("last_edit_time" not in skip):
                skip.add("last_edit_time")
            bad = cmp_rows(cur[n], ret, skip)
            ctx.bump_in("row_comparisons", kind)
            for c in bad:
                if kind == "get_after_set":
                    rule = "setter-wrong-value" if c == p[2] else "setter-touches-other-column"
                    ctx.violation(f"{rule} set_{p[2]} {c}", f"{schema}: after set_{p[2]} column {c} reads {str(ret.get(c))[:80]}, expected {str(cur[n].get(c))[:80]}", wit)
                elif kind == "get_other":
                    ctx.violation(f"other-row-changed after-{p[2] if isinstance(p[2], str) else 'op'} {c}",
                                  f"{schema}: an operation on one row changed column {c} of another row", wit)
                else:
                    ctx.violation(f"row-mismatch {kind} {c}", f"{schema}: {kind}: column {c} reads {str(ret.get(c))[:80]} but {str(cur[n].get(c))[:80]} was written", wit)
            if bad:
                return
        elif kind in ("getcol", "getcol_after_set"):
            ctx.count()
            c = p[2]
            ctx.bump_in("column_getters", c)
            if not supported(schema, c):
                if not threw or "unsupported_operation" not in ev["exc"].get("is", []):
                    ctx.violation(f"unsupported-column-accessor-does-not-throw get_{c}", f"{schema}: get_{c} on a version without the column did not throw unsupported_operation", wit)
                continue
            if threw:
                ctx.violation(f"column-getter-throws get_{c}", f"{schema}: get_{c} threw {ev['exc']['type']}", wit)
                continue
            exp = cur[p[1]].get(c)
            if c == "last_edit_time" and kind == "getcol_after_set" and False:
                continue
            if c == "last_edit_time" and kind == "getcol":
                pass
            ok = GS.deq(exp, ret) if c == "bpm_analyzed" else exp == ret
            if not ok and not (c == "last_edit_time" and kind == "getcol_after_set" and False):
                # lastEditTime is maintained by a trigger after updates of other columns
                if c == "last_edit_time" and cur[p[1]].get("_let_dirty"):
                    continue
                ctx.violation(f"column-getter-mismatch get_{c}", f"{schema}: get_{c} = {str(ret)[:80]} but the row holds {str(exp)[:80]}", wit)
        elif kind == "setcol":
            ctx.count()
            c, v = p[2], p[3]
            ctx.bump_in("column_setters", c)
            if not supported(schema, c):
                if not threw or "unsupported_operation" not in ev["exc"].get("is", []):
                    ctx.violation(f"unsupported-column-accessor-does-not-throw set_{c}", f"{schema}: set_{c} on a version without the column did not throw unsupported_operation", wit)
                continue
            if threw:
                ctx.violation(f"column-setter-throws set_{c}", f"{schema}: set_{c} threw {ev['exc']['type']} for a valid value", wit)
                continue
            cur[p[1]][c] = v
            row = cur[p[1]]
            if row.get("origin_track_id", 0) == 0 or row.get("origin_database_uuid", "") == "":
                # the database's own fix-up trigger
                row["origin_track_id"] = ids[p[1]]
                row["origin_database_uuid"] = uuid.encode().hex()
            if c != "last_edit_time":
                cur[p[1]]["_let_dirty"] = True
            else:
                cur[p[1]]["_let_dirty"] = False
        elif kind == "update":
            ctx.count()
            if threw:
                ctx.violation("update-rejects-valid-row track", f"{schema}: track_table::update threw {ev['exc']['type']}", wit)
                return
            cur[p[1]] = expected_row(schema, p[2], ids[p[1]], uuid, True)
        elif kind in ("missing_getcol", "missing_setcol"):
            ctx.count()
            c = p[1]
            ctx.bump("missing_id_accessor_calls")
            if not threw:
                ctx.violation(f"missing-row-accessor-succeeds {kind[8:]}_{c}", f"{schema}: {kind[8:]} of column {c} on a nonexistent track id returned normally", wit)
        elif kind == "missing_remove":
            ctx.count()
            ctx.bump_in("missing_remove_calls", p[1])
            if not threw:
                ctx.violation(f"missing-row-remove-succeeds {p[1]}", f"{schema}: remove() naming a nonexistent row ({p[1]}) returned normally", wit)
        elif kind == "remove":
            if threw:
                ctx.violation("remove-throws track", f"{schema}: track_table::remove threw {ev['exc']['type']}", wit)
        elif kind == "get_after_remove":
            if threw or ret is not None:
                ctx.violation("removed-row-still-readable track", f"{schema}: get() after remove() returns a row or throws", wit)
        elif kind == "pl_add":
            ctx.count()
            if threw:
                ctx.violation("add-rejects-valid-row playlist", f"{schema}: playlist_table::add threw {ev['exc']['type']}", wit)
                return
            pl[p[1]] = dict(p[2], id=ret)
        elif kind in ("pl_get_after_add", "pl_get_after_update", "pl_get_other"):
            ctx.count()
            if threw or ret is None:
                ctx.violation(f"get-fails {kind}", f"{schema}: playlist get() failed", wit)
                return
            exp = dict(pl[p[1]])
            exp["last_edit_time"] = (exp["last_edit_time"] // NS) * NS
            skip = {"next_list_id"} if kind != "pl_get_after_add" else set()
            for c in exp:
                if c in skip:
                    continue
                if exp[c] != ret.get(c):
                    ctx.violation(f"row-mismatch {kind} {c}", f"{schema}: playlist column {c} reads {ret.get(c)} but {exp[c]} was written", wit)
        elif kind == "pl_get_first_after_second":
            if ret and ret.get("next_list_id") != pl[2]["id"]:
                ctx.violation("playlist-chain-not-maintained", f"{schema}: after appending a second root list the first one's next_list_id is {ret.get('next_list_id')}", wit)
        elif kind == "pl_move":
            ctx.count()
            if threw:
                ctx.violation("update-rejects-valid-row playlist-move", f"{schema}: playlist_table::update (re-parenting) threw {ev['exc']['type']}", wit)
                return
            pl[2] = dict(p[2], id=pl[2]["id"], parent_list_id=pl[1]["id"])
        elif kind == "pl_get_after_move":
            ctx.count()
            if threw or ret is None:
                ctx.violation("get-fails pl_get_after_move", f"{schema}: playlist get() failed after a moving update", wit)
                return
            exp = dict(pl[2])
            exp["last_edit_time"] = (exp["last_edit_time"] // NS) * NS
            for c in exp:
                if exp[c] != ret.get(c):
                    ctx.violation(f"row-mismatch pl_get_after_move {c}", f"{schema}: after a re-parenting update playlist column {c} reads {ret.get(c)} but {exp[c]} was written", wit)
        elif kind == "pl_get_other_after_move":
            if ret is not None and not threw:
                for c in ("title", "parent_list_id", "is_explicitly_exported"):
                    if pl[1][c] != ret.get(c):
                        ctx.violation(f"other-row-changed playlist-move {c}", f"{schema}: moving one playlist changed column {c} of another", wit)
        elif kind == "pl_children_after_move":
            if threw or list(ret) != [pl[2]["id"]]:
                ctx.violation("playlist-chain-not-maintained after-move", f"{schema}: child_ids of the new parent = {ret}", wit)
        elif kind == "pl_update":
            ctx.count()
            if threw:
                ctx.violation("update-rejects-valid-row playlist", f"{schema}: playlist_table::update threw {ev['exc']['type']}", wit)
                return
            pl[1] = dict(p[2], id=pl[1]["id"])
        elif kind == "pe_add":
            ctx.count()
            if threw:
                ctx.violation("add-rejects-valid-row entity", f"{schema}: playlist_entity_table::add_back threw {ev['exc']['type']}", wit)
                return
            ents[p[1]] = dict(p[2], id=ret)
        elif kind == "pe_get_after_add":
            ctx.count()
            if threw or ret is None:
                ctx.violation("get-fails entity", f"{schema}: playlist_entity get() failed", wit)
                return
            exp = ents[p[1]]
            for c in ("id", "membership_reference", "next_entity_id"):
                if exp[c] != ret.get(c):
                    ctx.violation(f"row-mismatch entity {c}", f"{schema}: entity column {c} reads {ret.get(c)} but {exp[c]} was written", wit)
            if p[1] == 2 and ret.get("database_uuid") != exp["database_uuid"]:
                ctx.violation("row-mismatch entity database_uuid", f"{schema}: entity database_uuid differs", wit)
        elif kind == "pe_get_first_after_second":
            if ret and ret.get("next_entity_id") != ents[2]["id"]:
                ctx.violation("entity-chain-not-maintained", f"{schema}: first entity's next_entity_id is {ret.get('next_entity_id')} after a second add_back", wit)
        elif kind == "pe_list":
            if threw or [e["id"] for e in ret] != [ents[1]["id"], ents[2]["id"]]:
                ctx.violation("entity-listing-wrong", f"{schema}: get_for_list does not list the two entities in insertion order", wit)
        elif kind == "find_by_path":
            ctx.count()
            want = ids.get(p[1]) if p[1] else None
            if threw or ret != want:
                ctx.violation("find-by-path-wrong", f"{schema}: find_id_by_path gives {ret if not threw else ev['exc']['type']} for the path of row {p[1]} (id {want})", wit)
        elif kind == "pe_add_case_variant":
            ctx.count()
            if threw:
                ctx.violation("add-rejects-valid-row entity case-variant-uuid", f"{schema}: add_back of an entity whose database uuid differs from an existing "
                              f"one's only in letter case threw {ev['exc']['type']}", wit)
                return
            ents[4] = dict(p[1], id=ret)
            if ret == ents[2]["id"]:
                ctx.violation("row-mismatch entity case-variant-uuid", f"{schema}: add_back of an entity whose database uuid differs only in letter case "
                              f"returned the id of the existing row", wit)
        elif kind == "pe_list_case_variant":
            if threw:
                ctx.violation("entity-listing-wrong", f"{schema}: get_for_list throws", wit)
            else:
                got = sorted((e.get("database_uuid"), e.get("membership_reference")) for e in ret if e.get("track_id") == 424242)
                want = sorted((x["database_uuid"], x["membership_reference"]) for x in (p[1], p[2]))
                if got != want:
                    ctx.violation("row-mismatch entity case-variant-uuid", f"{schema}: the entities of one track whose database uuids differ only in "
                                  f"letter case read back as {got}, written {want}", wit)
        elif kind == "pe_list_after_remove":
            if threw or [e["id"] for e in ret if e.get("track_id") != 424242 or e["id"] == ents[2]["id"]] != [ents[2]["id"]]:
                ctx.violation("entity-remove-wrong", f"{schema}: after remove() get_for_list = {ret}", wit)
        elif kind == "pl_get_after_remove":
            if threw or ret is not None:
                ctx.violation("removed-row-still-readable playlist", f"{schema}: playlist get() after remove() returns a row", wit)
        elif kind == "info_before":
            if threw:
                ctx.violation("get-fails information", f"{schema}: information().get() throws", wit)
                return
            info0 = ret
        elif kind == "info_set":
            ctx.count()
            if threw:
                ctx.violation("column-setter-throws information played_indicator", f"{schema}: update_current_played_indicator threw {ev['exc']['type']}", wit)
        elif kind == "info_after":
            if threw:
                ctx.violation("get-fails information", f"{schema}: information().get() throws", wit)
                return
            want = dict(info0, played=p[1])
            for c in want:
                if want[c] != ret.get(c):
                    rule = "setter-wrong-value" if c == "played" else "setter-touches-other-column"
                    ctx.violation(f"{rule} information {c}", f"{schema}: after update_current_played_indicator({p[1]}) information.{c} = {ret.get(c)}, expected {want[c]}", wit)
            ctx.bump("information_table_checks")
        elif kind == "cl":
            # from 2.20.3 the change log is a stub view and the table reports unsupported_operation
            if threw and not (schema_tuple(schema) >= (2, 20, 3) and "unsupported_operation" in ev["exc"].get("is", [])):
                ctx.violation("change-log-query-throws", f"{schema}: a change_log query throws {ev['exc']['type']}", wit)
        elif kind in ("pe_remove", "pl_remove"):
            if threw:
                ctx.violation(f"remove-throws {kind}", f"{schema}: {kind} of an existing row threw {ev['exc']['type']}", wit)


def resolve(ops_events):
    pass


def run(ctx):
    per = 40 if ctx.tier == "quick" else 800
    cases = []
    n = 0
    for schema in V2_SCHEMAS:
        for k in range(per):
            # one case in five works in a library shaped like a long-lived one: ids around 2^31 / 2^32 / 2^53 and a dozen other rows
            first, fill = None, 0
            if k % 5 == 3:
                from .. import gen_hist as GH
                first = GH.FIRST_IDS[(k // 5) % len(GH.FIRST_IDS)]
                ctx.bump_in("cases_with_first_id", str(first))
            if k % 5 in (3, 4):
                fill = 12
                ctx.bump("cases_with_filler_rows")
            c = build_case("r%d" % n, ctx.rng, schema, first, fill)
            # table objects are cheap handles onto one connection and a program may keep several: in one case in three every
            # reading call goes through objects obtained once and kept, while the writing calls use fresh ones - and in another
            # third the other way round.  Whatever one object writes, every other one must read.
            if k % 3 in (1, 2):
                readers = k % 3 == 1
                for o in c["ops"]:
                    name = o.get("op", "")
                    if name.startswith(("trk_", "pl_", "pe_")):
                        is_read = any(t in name for t in ("_get", "_exists", "_ids", "_find", "_track_ids"))
                        if is_read == readers:
                            o["held"] = True
                ctx.bump_in("cases_with_long_lived_table_objects", "readers kept" if readers else "writers kept")
            cases.append(c)
            n += 1
    r1 = cases[0]["_rows"][0]
    ctx.sample({"schema": cases[0]["schema"], "row": {k: (str(v)[:50]) for k, v in list(r1.items())[:14]}})
    ctx.assumptions += ["exempt exactly as stated: id; lastEditTime (compared only right after add()); origin uuid/id when written empty/0 "
                        "(must then equal Information.uuid / the new id)", "columns a version lacks read back as their 'none' value and "
                        "their accessors must throw unsupported_operation", "'reports an error' = any std::exception",
                        "time points at whole-second resolution"]
    runner.run_cases(cases, cfg="plain", on_result=lambda r: judge_case(ctx, r))
    seen = set(ctx.extra.get("cases_by_schema", {}))
    if seen != set(V2_SCHEMAS):
        ctx.fail_harness("schema versions not covered: %s" % sorted(set(V2_SCHEMAS) - seen))
    if len(ctx.extra.get("column_setters", {})) < len(ALL_COLS):
        ctx.fail_harness("not every column setter was exercised")


def replay(ctx, doc):
    r = doc["replay"]
    case = {"id": "replay", "schema": r["schema"], "ops": r["ops"], "_plan": r["plan"], "_rows": None}
    judge_case(ctx, runner.run_one(case, cfg="plain"))
