"""C07 - all crate queries describe one well-formed forest.

Two layers per observed state: self-consistency (every structural query is
checked against the forest built from crates() + parent()) and transition
(against a reference forest model that applies exactly the requested change,
or nothing when the call throws)."""
import itertools

from .. import forest as FO, runner
from ..framework import ALL_SCHEMAS, family

LEVEL = "exploration"
RULE = ("crate histories (create root/sub-crate [after], rename, re-parent, remove; names from a small pool plus the "
        "invalid names '' and 'a;b'; targets any live crate, none, self or a descendant) observed after every step "
        "through every structural query; bounded-exhaustive over a fixed 4-crate forest for all op sequences up to "
        "the tier's length on one version per storage family, plus model-steered random histories of 15-40 ops on all "
        "18 versions; non-trivial = the history reaches depth >= 2 and moves, renames or removes a crate that has "
        "children or a non-last position; distinct by canonical history")

OBS = {"op": "observe_all", "tracks": False}
EXH_VERSIONS = ["1.6.0", "1.18.0 (OS)", "2.18.0", "2.21.2"]
ALL_NAMES = [FO.hx(n) for n in FO.VALID_NAMES + FO.INVALID_NAMES]


def wrap_case(cid, schema, ops, metas):
    full = [{"op": "create_temporary", "schema": schema}, {"op": "note", "names": ALL_NAMES}]
    index = [None, None]
    for i, op in enumerate(ops):
        full.append(op)
        index.append(i)
        full.append(OBS)
        index.append(None)
    return {"id": cid, "schema": schema, "ops": full, "_metas": metas, "_index": index}


def random_case(cid, rng, schema, n_ops):
    st = FO.GenState(schema)
    ops, metas = [], []
    for _ in range(n_ops):
        op, meta = FO.gen_crate_op(rng, st)
        ops.append(op)
        metas.append(meta)
    return wrap_case(cid, schema, ops, metas)


BASE = [({"op": "create_root_crate", "name": FO.hx("a"), "as": "c0"}, {"kind": "create", "h": "c0", "parent": None, "name": FO.hx("a"), "after": None}),
        ({"op": "create_sub_crate", "c": "c0", "name": FO.hx("b"), "as": "c1"}, {"kind": "create", "h": "c1", "parent": "c0", "name": FO.hx("b"), "after": None}),
        ({"op": "create_sub_crate", "c": "c1", "name": FO.hx("c"), "as": "c2"}, {"kind": "create", "h": "c2", "parent": "c1", "name": FO.hx("c"), "after": None}),
        ({"op": "create_root_crate", "name": FO.hx("d"), "as": "c3"}, {"kind": "create", "h": "c3", "parent": None, "name": FO.hx("d"), "after": None})]


def exhaustive_alphabet():
    """Ops over the four base crates c0 > c1 > c2 and root c3 (names a,b plus invalid)."""
    hs = ["c0", "c1", "c2", "c3"]
    alpha = []
    for n in ("a", "b", "", "a;b"):
        alpha.append(("create_root", None, n))
    for h in hs:
        for n in ("a", "b"):
            alpha.append(("create_sub", h, n))
    for h in hs:
        for n in ("a", "b", ""):
            alpha.append(("set_name", h, n))
    for h in hs:
        for p in [None] + hs:
            alpha.append(("set_parent", h, p))
    for h in hs:
        alpha.append(("remove", h, None))
    return alpha


def build_exh(seq):
    ops, metas = [], []
    for o, m in BASE:
        ops.append(o)
        metas.append(m)
    nxt = 4
    for kind, h, x in seq:
        if kind == "create_root":
            hn = "c%d" % nxt
            nxt += 1
            ops.append({"op": "create_root_crate", "name": FO.hx(x), "as": hn})
            metas.append({"kind": "create", "h": hn, "parent": None, "name": FO.hx(x), "after": None})
        elif kind == "create_sub":
            hn = "c%d" % nxt
            nxt += 1
            ops.append({"op": "create_sub_crate", "c": h, "name": FO.hx(x), "as": hn})
            metas.append({"kind": "create", "h": hn, "parent": h, "name": FO.hx(x), "after": None})
        elif kind == "set_name":
            ops.append({"op": "set_name", "c": h, "name": FO.hx(x)})
            metas.append({"kind": "set_name", "h": h, "name": FO.hx(x)})
        elif kind == "set_parent":
            ops.append({"op": "set_parent", "c": h, "parent": x})
            metas.append({"kind": "set_parent", "h": h, "parent": x})
        else:
            ops.append({"op": "remove_crate", "c": h})
            metas.append({"kind": "remove_crate", "h": h})
    return ops, metas


def scale_case(cid, rng, schema):
    """A deep chain (depth 24), a wide level (40 siblings), long and odd names; then moves, renames and removals in it."""
    ops, metas = [], []
    n = 0

    def create(parent, name):
        nonlocal n
        h = "c%d" % n
        n += 1
        if parent is None:
            ops.append({"op": "create_root_crate", "name": FO.hx(name), "as": h})
        else:
            ops.append({"op": "create_sub_crate", "c": parent, "name": FO.hx(name), "as": h})
        metas.append({"kind": "create", "h": h, "parent": parent, "name": FO.hx(name), "after": None})
        return h

    chain = [create(None, "deep root")]
    for d in range(23):
        chain.append(create(chain[-1], "level %d %s" % (d, "x" * (d * 20))))
    wide_parent = chain[2]
    wide = [create(wide_parent, "sib %03d" % i) for i in range(40)]
    other = create(None, "n" * 300)
    # move a mid-chain crate (with 9 descendants) under a wide sibling, then try the cycle, rename high up, remove low
    for (kind, h, x) in (("set_parent", chain[4], wide[17]), ("set_parent", wide[17], chain[9]), ("set_name", chain[1], "renamed level"),
                         ("set_parent", wide[3], other), ("remove", chain[8], None), ("set_parent", chain[3], None),
                         ("remove", wide[20], None), ("set_name", wide[39], "sib 000"), ("remove", chain[0], None)):
        if kind == "set_parent":
            ops.append({"op": "set_parent", "c": h, "parent": x})
            metas.append({"kind": "set_parent", "h": h, "parent": x})
        elif kind == "set_name":
            ops.append({"op": "set_name", "c": h, "name": FO.hx(x)})
            metas.append({"kind": "set_name", "h": h, "name": FO.hx(x)})
        else:
            ops.append({"op": "remove_crate", "c": h})
            metas.append({"kind": "remove_crate", "h": h})
    # every step is observed; name lookups are limited to 25 names to keep the case affordable
    full = [{"op": "create_temporary", "schema": schema}]
    index = [None]
    for i, op in enumerate(ops):
        full.append(op)
        index.append(i)
        full.append({"op": "observe_all", "tracks": False, "max_names": 25})
        index.append(None)
    return {"id": cid, "schema": schema, "ops": full, "_metas": metas, "_index": index, "_scale": True}


def many_case(cid, rng, schema, n_roots=350, n_subs=400, chain=80, first_id=None):
    """Hundreds of crates, judged once at the end against a forest model (sets; adjacency for create-after on 2.x).
    `chain`: a single line of that many nested crates hangs under the first root.  `first_id` (2.x): the id counter of
    the crate table is advanced first, as a long-lived or merged library would have it, so that the ids in the
    listings straddle 2^31 or 2^32."""
    v2 = schema.startswith("2.")
    # re-parenting inside a deep line costs ~ depth^2 x table size VDBE steps on 1.x (one statement per pair over an
    # unindexed table): the termination budget is scaled to the size of this case, not the default for small forests
    ops = [{"op": "create_temporary", "schema": schema}, {"op": "set_budget", "vdbe": 4 * 10 ** 9}]
    parent, name, alive = {}, {}, {}
    hs = []
    after_of = {}

    def new(h, p, nm):
        parent[h], name[h], alive[h] = p, nm, True
        hs.append(h)

    for i in range(n_roots):
        h = "c%d" % len(hs)
        nm = "root %04d" % i
        roots = [x for x in hs if parent[x] is None]
        if roots and i % 7 == 3:
            a = rng.choice(roots)
            ops.append({"op": "create_root_crate_after", "name": FO.hx(nm), "after": a, "as": h})
            after_of[h] = a
        else:
            ops.append({"op": "create_root_crate", "name": FO.hx(nm), "as": h})
        new(h, None, nm)
        if i == 0 and first_id is not None and v2:
            ops.append({"op": "raw_exec", "sql": "UPDATE sqlite_sequence SET seq = %d WHERE name = 'Playlist'" % (first_id - 1)})
    line = ["c0"]
    for i in range(chain):
        h = "c%d" % len(hs)
        nm = "level %03d" % i
        ops.append({"op": "create_sub_crate", "c": line[-1], "name": FO.hx(nm), "as": h})
        new(h, line[-1], nm)
        line.append(h)
    for i in range(n_subs):
        h = "c%d" % len(hs)
        p = rng.choice(hs[: max(20, len(hs) // 3)])
        nm = "sub %04d" % i
        ops.append({"op": "create_sub_crate", "c": p, "name": FO.hx(nm), "as": h})
        new(h, p, nm)

    def desc(h):
        out, st = [], [x for x in hs if alive[x] and parent[x] == h]
        while st:
            x = st.pop()
            out.append(x)
            st.extend(y for y in hs if alive[y] and parent[y] == x)
        return out

    keep = set(line)
    for step in range(61):
        live = [x for x in hs if alive[x]]
        r = rng.random()
        c = rng.choice(live)
        if step == 60:
            # the lower quarter of the line moves, as one piece, under some other root
            c = line[3 * len(line) // 4]
            d = set(desc(c))
            cand = [x for x in live if x != c and x not in d and parent[x] is None and x != line[0]]
            if not cand:
                break
            p = rng.choice(cand)
            ops.append({"op": "set_parent", "c": c, "parent": p})
            parent[c] = p
            break
        if c in keep and r >= 0.35:
            r = 0.0   # the line itself is only renamed by the random part, so that it keeps its depth
        if r < 0.35:
            nm = "renamed %d" % rng.randrange(10 ** 6)
            ops.append({"op": "set_name", "c": c, "name": FO.hx(nm)})
            name[c] = nm
        elif r < 0.7:
            d = set(desc(c))
            cand = [x for x in live if x != c and x not in d]
            p = rng.choice(cand + [None])
            ops.append({"op": "set_parent", "c": c, "parent": p})
            parent[c] = p
            after_of.pop(c, None)
            for k in [k for k, v in after_of.items() if v == c]:
                after_of.pop(k)
        else:
            for x in desc(c) + [c]:
                alive[x] = False
            ops.append({"op": "remove_crate", "c": c})
    tail = len(ops)
    ops += [{"op": "db_query", "q": "crates"}, {"op": "db_query", "q": "root_crates"}]
    live_now = [x for x in hs if alive[x]]
    probe = rng.sample(live_now, min(25, len(live_now)))
    # the top and the middle of the line of nested crates are always probed
    for x in (line[0], line[len(line) // 2]):
        if alive[x] and x not in probe:
            probe.append(x)
    for x in probe:
        ops += [{"op": "crate_query", "c": x, "q": "children"}, {"op": "crate_query", "c": x, "q": "descendants"},
                {"op": "crate_query", "c": x, "q": "parent"}, {"op": "crate_query", "c": x, "q": "name"}]
    # a cycle through the deepest living crate of the line must be refused and change nothing
    cyc = None

    def depth_below(top, x):
        n = 0
        while x != top:
            x = parent[x]
            n += 1
        return n

    # the longest surviving stretch of the line: from its highest living member to that member's deepest descendant
    tops = [x for x in line if alive[x]]
    best = None
    for top in tops[:1] + tops[len(tops) // 4:len(tops) // 4 + 1]:
        dd = desc(top)
        if dd:
            bottom = max(dd, key=lambda x: depth_below(top, x))
            if best is None or depth_below(top, bottom) > best[2]:
                best = (top, bottom, depth_below(top, bottom))
    if best:
        cyc = (best[0], best[1], len(ops), best[2])
        line = [best[0]]
        ops += [{"op": "set_parent", "c": line[0], "parent": best[1]}, {"op": "crate_query", "c": line[0], "q": "parent"},
                {"op": "crate_query", "c": line[0], "q": "descendants"}, {"op": "db_query", "q": "crates"}]
    model = {"parent": parent, "name": name, "alive": alive, "hs": hs, "after_of": after_of, "probe": probe, "tail": tail, "cycle": cyc,
             "chain": chain, "first_id": first_id if v2 else None}
    return {"id": cid, "schema": schema, "ops": ops, "_many": model}


def judge_many(ctx, res):
    case = res.case
    schema = case["schema"]
    fam = family(schema)
    m = case["_many"]
    ctx.count()
    ctx.bump("many_crate_cases")
    wit = {"schema": schema, "ops": case["ops"][-60:], "crates": len(m["hs"])}
    evs = res.events
    if res.crash or len(evs) < len(case["ops"]):
        kind = res.crash["kind"] if res.crash else "incomplete"
        ctx.violation(f"op-did-not-complete {fam} many-crates {kind}", f"{schema}: the many-crates case did not complete: {kind}", wit)
        return
    hid = {}
    for k, op in enumerate(case["ops"]):
        if "as" in op and "ret" in evs[k]:
            hid[op["as"]] = evs[k]["ret"]
        if "exc" in evs[k] and k < m["tail"]:
            ctx.violation(f"bulk-op-throws {fam} {op['op']}", f"{schema}: {op['op']} threw {evs[k]['exc']['type']} in the many-crates case", wit)
            return
    live = [h for h in m["hs"] if m["alive"][h]]
    ctx.extra["many_max_live_crates"] = max(ctx.extra.get("many_max_live_crates", 0), len(live))
    got = evs[m["tail"]].get("ret")
    if got is None or sorted(got) != sorted(hid[h] for h in live):
        ctx.violation(f"wrong-crate-set {fam} many-crates", f"{schema}: crates() has {len(got or [])} entries, the model {len(live)}", wit)
        return
    roots = evs[m["tail"] + 1].get("ret")
    want_roots = [hid[h] for h in live if m["parent"][h] is None]
    if roots is None or sorted(roots) != sorted(want_roots) or len(set(roots)) != len(roots):
        ctx.violation(f"inconsistent {fam} root_crates-mismatch many-crates", f"{schema}: root_crates() has {len(roots or [])} entries, the model {len(want_roots)}", wit)
    elif schema.startswith("2."):
        pos = {x: i for i, x in enumerate(roots)}
        for h, a in m["after_of"].items():
            if m["alive"].get(h) and m["alive"].get(a) and m["parent"][h] is None and m["parent"][a] is None:
                # nothing was created after `a` later on? adjacency is only guaranteed right after creation, so judge order only
                if pos[hid[h]] < pos[hid[a]]:
                    ctx.violation(f"created-after-misplaced {fam} many-crates", f"{schema}: a crate created after a sibling is listed before it", wit)
                    break
    k = m["tail"] + 2
    for x in m["probe"]:
        ch, de, pa, nm = (evs[k + j].get("ret") for j in range(4))
        k += 4
        want_ch = sorted(hid[y] for y in live if m["parent"][y] == x)
        dd, st = [], [y for y in live if m["parent"][y] == x]
        while st:
            y = st.pop()
            dd.append(hid[y])
            st.extend(z for z in live if m["parent"][z] == y)
        if ch is None or sorted(ch) != want_ch:
            ctx.violation(f"inconsistent {fam} children-mismatch many-crates", f"{schema}: children() of a crate with {len(want_ch)} children lists {len(ch or [])}", wit)
        if de is None or sorted(de) != sorted(dd):
            ctx.violation(f"inconsistent {fam} descendants-mismatch many-crates", f"{schema}: descendants() lists {len(de or [])}, the model {len(dd)}", wit)
        if pa != (hid[m["parent"][x]] if m["parent"][x] else None):
            ctx.violation(f"wrong-parent {fam} many-crates", f"{schema}: parent() = {pa}", wit)
        if nm != FO.hx(m["name"][x]):
            ctx.violation(f"wrong-name {fam} many-crates", f"{schema}: name() differs from the model", wit)
    ctx.extra["many_max_chain_depth"] = max(ctx.extra.get("many_max_chain_depth", 0), m["chain"])
    if m.get("first_id"):
        ctx.bump_in("many_cases_with_first_crate_id", str(m["first_id"]))
        ctx.extra["many_max_crate_id"] = max(ctx.extra.get("many_max_crate_id", 0), max(hid.values()))
    if m.get("cycle"):
        top, bottom, at, levels = m["cycle"]
        ctx.bump("deep_cycle_attempts")
        ctx.extra["deep_cycle_max_levels"] = max(ctx.extra.get("deep_cycle_max_levels", 0), levels)
        ctx.bump_in("deep_cycle_levels", str(levels // 10 * 10) + "+")
        dd, st = [], [y for y in live if m["parent"][y] == top]
        while st:
            y = st.pop()
            dd.append(hid[y])
            st.extend(z for z in live if m["parent"][z] == y)
        if "exc" not in evs[at]:
            ctx.violation(f"cycle-accepted {fam} many-crates", f"{schema}: set_parent of a crate onto its own descendant {len(dd)} levels of nesting away was accepted", wit)
        want_pa = hid[m["parent"][top]] if m["parent"][top] else None
        if evs[at + 1].get("ret", "?") != want_pa or sorted(evs[at + 2].get("ret") or []) != sorted(dd) or \
                sorted(evs[at + 3].get("ret") or []) != sorted(hid[h] for h in live):
            ctx.violation(f"refused-cycle-changed-something {fam} many-crates", f"{schema}: after a refused deep cycle attempt the hierarchy differs from the model", wit)


def opdesc(meta):
    k = meta["kind"]
    if k == "create":
        return "create_" + ("sub" if meta["parent"] else "root") + "_crate" + ("_after" if meta.get("after") else "")
    return k


def judge_case(ctx, res):
    case = res.case
    schema = case["schema"]
    fam = family(schema)
    ops, metas, index = case["ops"], case["_metas"], case["_index"]
    ctx.bump_in("cases_by_schema", schema)
    wit = {"schema": schema, "ops": [o for o in ops if o["op"] not in ("observe_all", "note", "create_temporary")]}
    evs = res.events
    model = FO.Forest()
    hid = {}          # handle -> id (live or removed)
    removed = set()   # ids removed and not since reused
    reached_depth = 0
    interesting = False
    stop_at = len(evs)
    for k in range(len(evs)):
        op = ops[k]
        if op["op"] != "observe_all":
            continue
        ev = evs[k]
        src = index[k - 1]
        meta = metas[src] if src is not None else None
        act = evs[k - 1]
        if "exc" in ev:
            sb = ev.get("sh", {}).get("step_budget_exceeded")
            if sb:
                ctx.violation(f"no-termination {fam} observe", f"{schema}: a structural query exceeded the VDBE step budget", wit)
            else:
                ctx.fail_harness("observe_all failed: %s" % ev["exc"]["type"])
            return
        obs = ev["ret"]
        ctx.bump("observations")
        from ..framework import held_handles
        if held_handles(ctx, obs, fam, schema, wit):
            return
        if meta is None:
            continue
        ctx.count()
        od = opdesc(meta)
        ctx.bump_in("ops", od)
        threw = "exc" in act
        if threw and "harness_error" in act["exc"].get("is", []):
            ctx.bump("ops_skipped_missing_handle")
            continue
        # a call on (or with) a handle of a removed crate is outside the documented contract:
        # nothing after it can be judged
        refs = [meta.get("h") if meta["kind"] != "create" else None, meta.get("parent"), meta.get("after")]
        if any(r is not None and hid.get(r) not in model.name for r in refs):
            ctx.bump("cases_stopped_at_out_of_contract_call")
            break
        if act.get("sh", {}).get("step_budget_exceeded"):
            ctx.violation(f"no-termination {fam} {od}", f"{schema}: {od} exceeded the VDBE step budget (did not terminate)", wit)
            return
        if threw and not act["exc"].get("std", True):
            ctx.violation(f"non-std-exception {fam} {od}", f"{od} threw a non-std exception", wit)
        # ---- expected model
        exp = model.copy()
        must_throw = None
        if meta["kind"] == "create":
            if FO.name_invalid(meta["name"]):
                must_throw = "invalid-name"
            if not threw:
                nid = act["ret"]
                if nid in model.name:
                    ctx.violation(f"id-collision {fam} {od}", f"{schema}: {od} returned id {nid}, which a live crate already has", wit)
                hid[meta["h"]] = nid
                removed.discard(nid)
                exp.name[nid] = meta["name"]
                exp.parent[nid] = hid.get(meta["parent"]) if meta["parent"] else None
        elif meta["kind"] == "set_name":
            c = hid.get(meta["h"])
            if FO.name_invalid(meta["name"]):
                must_throw = "invalid-name"
            if not threw and c in exp.name:
                exp.name[c] = meta["name"]
                if model.descendants(c):
                    interesting = True
        elif meta["kind"] == "set_parent":
            c = hid.get(meta["h"])
            p = hid.get(meta["parent"]) if meta["parent"] else None
            if c in model.name and p is not None and (p == c or p in model.descendants(c)):
                must_throw = "cycle"
            if not threw and c in exp.name:
                exp.parent[c] = p
                if model.children(c) or len(model.children(model.parent[c]) if model.parent[c] is not None else model.roots()) >= 2:
                    interesting = True
        elif meta["kind"] == "remove_crate":
            c = hid.get(meta["h"])
            if not threw and c in exp.name:
                sub = model.descendants(c)
                if sub:
                    interesting = True
                del exp.name[c]
                del exp.parent[c]
                removed.add(c)
                # descendants: gone or live (the statement does not fix which) - adopt what is observed
                live_now = set(obs["db"]["crates"]) if isinstance(obs["db"]["crates"], list) else set()
                for d in sub:
                    if d not in live_now:
                        del exp.name[d]
                        del exp.parent[d]
                        removed.add(d)
        if must_throw and not threw:
            ctx.violation(f"accepted-{must_throw} {fam} {od}",
                          f"{schema}: {od} accepted " + ("an invalid name" if must_throw == "invalid-name" else
                                                         "a re-parenting onto itself or a descendant"), wit)
        if threw:
            ctx.bump_in("rejections", od + ":" + act["exc"]["type"])
        # ---- self-consistency of the observed state
        f, problems = FO.check_self_consistency(obs, ALL_NAMES)
        for rule, msg in problems:
            ctx.violation(f"inconsistent {fam} {rule} after-{od}", f"{schema}: after {od}: {msg}", wit)
        if f is None:
            return
        # ---- transition: observed forest == expected model
        if set(f.name) != set(exp.name):
            extra = sorted(set(f.name) - set(exp.name))
            missing = sorted(set(exp.name) - set(f.name))
            rule = "throwing-op-has-effect" if threw else "wrong-crate-set"
            back = [x for x in extra if x in removed]
            if back:
                rule = "removed-crate-returned"
            ctx.violation(f"{rule} {fam} {od}", f"{schema}: after {od}{' (which threw)' if threw else ''} crates() has "
                          f"unexpected {extra} and lacks {missing}", wit)
            stop_at = k
        else:
            for c in exp.name:
                if f.name[c] != exp.name[c]:
                    rule = "throwing-op-has-effect" if threw else "wrong-name"
                    ctx.violation(f"{rule} {fam} {od}", f"{schema}: after {od} crate {c} is named "
                                  f"{bytes.fromhex(f.name[c] or '')!r}, expected {bytes.fromhex(exp.name[c])!r}", wit)
                    stop_at = k
                if f.parent[c] != exp.parent[c]:
                    rule = "throwing-op-has-effect" if threw else "wrong-parent"
                    ctx.violation(f"{rule} {fam} {od}", f"{schema}: after {od} crate {c} has parent {f.parent[c]}, "
                                  f"expected {exp.parent[c]}", wit)
                    stop_at = k
        # handles: ids never change; validity follows liveness
        for h, x in (obs.get("crate_handles") or {}).items():
            if h in hid and x["id"] != hid[h]:
                ctx.violation(f"id-changed {fam}", f"{schema}: handle {h} reports id {x['id']}, was {hid[h]}", wit)
            if h in hid:
                want = hid[h] in f.name
                if FO.is_exc(x["valid"]):
                    ctx.violation(f"is_valid-throws {fam}", f"{schema}: is_valid() throws", wit)
                elif x["valid"] != want:
                    ctx.violation(f"is_valid-mismatch {fam} after-{od}", f"{schema}: is_valid() of handle {h} is {x['valid']} "
                                  f"but crate {hid[h]} is {'live' if want else 'not live'}", wit)
        if problems or stop_at == k:
            break  # later steps would be judged against a wrong model
        # canonical shape of the observed forest (ids abstracted away)
        def shape(c):
            return (exp.name[c], tuple(sorted(shape(x) for x in exp.name if exp.parent[x] == c)))
        ctx.state("distinct_forest_states_observed", repr(sorted(shape(r) for r in exp.name if exp.parent[r] is None)))
        model = f.copy()
        model.name = dict(exp.name)
        model.parent = dict(exp.parent)
        for c in model.name:
            reached_depth = max(reached_depth, model.depth(c))
    if res.crash:
        c = res.crash
        if c["op_index"] < 0:
            ctx.fail_harness("executor died outside any op: %s" % c["kind"])
            return
        i = c["op_index"]
        src = index[i] if i < len(index) else None
        if src is None and i > 0 and ops[i]["op"] == "observe_all":
            prev_meta = metas[index[i - 1]] if index[i - 1] is not None else None
            od = "observe-after-" + (opdesc(prev_meta) if prev_meta else "?")
        else:
            od = opdesc(metas[src]) if src is not None else str(c.get("op"))
        ctx.count()
        ctx.violation(f"op-did-not-complete {fam} {od} {c['kind']} at={c['site']}",
                      f"{schema}: {od} did not complete: {c['kind']} in {c['site']}", dict(wit, crash=c["kind"]))
    if reached_depth >= 2 and interesting:
        ctx.nontriv({"schema": schema, "ops": wit["ops"]})


def big_subtree_case(cid, rng, schema, n_subs):
    """One crate with more than a thousand descendants (flat, nested, and a binary tree below one of them) is removed in one call:
    afterwards the crate and every descendant must be gone from every query, everything else must still be there, and no
    surviving crate may name a removed one as its parent.  (1000 is where id lists stop fitting one statement's parameters.)"""
    ops = [{"op": "create_temporary", "schema": schema}, {"op": "set_budget", "vdbe": 4 * 10 ** 10},
           {"op": "create_root_crate", "name": FO.hx("keep"), "as": "k0"}, {"op": "create_sub_crate", "c": "k0", "name": FO.hx("kept child"), "as": "k1"},
           {"op": "create_root_crate", "name": FO.hx("doomed"), "as": "R"}]
    subs = ["R"]
    for k in range(n_subs):
        h = "s%d" % k
        if k % 3 == 0:
            p = "R"
        elif k % 3 == 1:
            p = subs[(len(subs) - 1) // 2]       # heap-shaped tree
        else:
            p = rng.choice(subs[-40:])
        ops.append({"op": "create_sub_crate", "c": p, "name": FO.hx("n%04d" % k), "as": h})
        subs.append(h)
    ops.append({"op": "create_root_crate", "name": FO.hx("later"), "as": "k2"})
    tail = len(ops)
    ops += [{"op": "remove_crate", "c": "R"}, {"op": "db_query", "q": "crates"}, {"op": "db_query", "q": "root_crates"},
            {"op": "crate_query", "c": "k0", "q": "children"}, {"op": "crate_query", "c": "k0", "q": "descendants"},
            {"op": "crate_query", "c": "k1", "q": "parent"},
            {"op": "db_query", "q": "crates_by_name", "name": FO.hx("n0001")}, {"op": "db_query", "q": "root_crate_by_name", "name": FO.hx("doomed")},
            {"op": "create_root_crate", "name": FO.hx("doomed"), "as": "R2"}, {"op": "db_query", "q": "crates"}]
    return {"id": cid, "schema": schema, "ops": ops, "_big": {"n": n_subs, "tail": tail}, "no_tz": True, "no_disk": True}


def judge_big(ctx, res):
    case = res.case
    schema, fam, n = case["schema"], family(case["schema"]), case["_big"]["n"]
    ops, tail = case["ops"], case["_big"]["tail"]
    wit = {"schema": schema, "big_subtree": n, "ops": ops[:6] + ops[tail:]}
    ctx.count()
    ctx.bump_in("big_subtree_removals", str(n))
    if res.crash:
        c = res.crash
        ctx.violation(f"op-did-not-complete {fam} big-subtree {c.get('op')} {c['kind']}", f"{schema}: {c.get('op')} around a subtree of {n} crates did not complete: {c['kind']}", wit)
        return
    ev = res.events
    bad = [k for k, e in enumerate(ev) if "exc" in e]
    if bad:
        ctx.violation(f"bulk-op-throws {fam} {ops[bad[0]]['op']} big-subtree", f"{schema}: {ops[bad[0]]['op']} throws {ev[bad[0]]['exc']['type']} around a subtree of {n} crates", wit)
        return
    ids = {o["as"]: ev[k]["ret"] for k, o in enumerate(ops) if "as" in o}
    keep = {ids["k0"], ids["k1"], ids["k2"]}
    ctx.nontriv({"schema": schema, "big": n})
    t = tail
    checks = [(t + 1, sorted(keep), "crates()"), (t + 2, sorted({ids["k0"], ids["k2"]}), "root_crates()"), (t + 3, [ids["k1"]], "children(keep)"),
              (t + 4, [ids["k1"]], "descendants(keep)"), (t + 5, ids["k0"], "parent(kept child)"), (t + 6, [], "crates_by_name(a removed name)"),
              (t + 7, None, "root_crate_by_name(the removed root)"), (t + 9, sorted(keep | {ids["R2"]}), "crates() after re-creating the root name")]
    for k, want, what in checks:
        got = ev[k]["ret"]
        if isinstance(want, list):
            got = sorted(got)
        if got != want:
            extra = len(set(got) - set(want)) if isinstance(want, list) else 0
            ctx.violation(f"removed-subtree-survives {fam} {what.split('(')[0]}",
                          f"{schema}: after remove_crate of a crate with {n} descendants, {what} = {str(got)[:120]} ({extra} unexpected) instead of {str(want)[:80]}", wit)
            return


def run(ctx):
    bigs = []
    for i, schema in enumerate(ALL_SCHEMAS):
        if ctx.tier == "quick":
            nb = 1050 if (i + ctx.seed) % 2 == 0 or schema == "2.21.2" else 300
        else:
            nb = ctx.rng.choice([1050, 2100, 3300])
        bigs.append(big_subtree_case("big%d" % i, ctx.rng, schema, nb))
    runner.run_cases(bigs, cfg="plain", on_result=lambda r: judge_big(ctx, r), stall_timeout=900)
    if not ctx.extra.get("big_subtree_removals"):
        ctx.fail_harness("the big-subtree cases judged nothing")
    cases = []
    n = 0
    per = 40 if ctx.tier == "quick" else 1200
    for schema in ALL_SCHEMAS:
        for k in range(per):
            cases.append(random_case("r%d" % n, ctx.rng, schema, 15 + (k % 6) * 5))
            n += 1
    for schema in ALL_SCHEMAS:
        cases.append(scale_case("s%d" % n, ctx.rng, schema))
        n += 1
    ctx.extra["scale_cases"] = len(ALL_SCHEMAS)
    for schema in ALL_SCHEMAS:
        cases.append(many_case("m%d" % n, ctx.rng, schema, 350 if ctx.tier == "quick" else 1200, 400 if ctx.tier == "quick" else 1500,
                               chain=80 if ctx.tier == "quick" else 150))
        n += 1
        if schema.startswith("2."):
            # crate ids straddling 2^31 and 2^32
            for first in ([2 ** 31 - 20] if ctx.tier == "quick" else [2 ** 31 - 20, 2 ** 32 - 20, 2 ** 53, 2 ** 62]):
                cases.append(many_case("m%d" % n, ctx.rng, schema, 30, 60, chain=20, first_id=first))
                n += 1
    c0 = cases[0]
    ctx.sample({"schema": c0["schema"], "ops": [o for o in c0["ops"] if o["op"] not in ("observe_all", "note")][:10]})
    on = lambda r: judge_many(ctx, r) if r.case.get("_many") else judge_case(ctx, r)   # noqa: E731
    runner.run_cases(cases, cfg="plain", on_result=on, stall_timeout=120)
    # the bounded-exhaustive family is generated, run and judged in slices, so that memory stays bounded
    alpha = exhaustive_alphabet()
    depth = 2 if ctx.tier == "quick" else 3
    nexh = 0
    cases = []
    for schema in EXH_VERSIONS:
        for L in range(1, depth + 1):
            for seq in itertools.product(alpha, repeat=L):
                ops, metas = build_exh(seq)
                cases.append(wrap_case("e%d" % n, schema, ops, metas))
                n += 1
                nexh += 1
                if len(cases) >= 20000:
                    runner.run_cases(cases, cfg="plain", on_result=on, stall_timeout=120)
                    cases = []
    ctx.extra["exhaustive_cases"] = nexh
    ctx.extra["exhaustive_scope"] = (f"all sequences of length <= {depth} over {len(alpha)} operations on the forest "
                                     f"a>b>c, d on versions {EXH_VERSIONS}")
    ctx.exhaustive = False
    ctx.assumptions += [
        "where the statement is silent (duplicate sibling names; whether descendants of a removed crate go too) either "
        "outcome is accepted and the model follows what was observed, but a throwing call must change nothing",
        "exception types are not judged; id reuse after removal is not a collision",
        "termination judged by a VDBE step budget of 5*10^7 per call"]
    runner.run_cases(cases, cfg="plain", on_result=on, stall_timeout=120)
    seen = set(ctx.extra.get("cases_by_schema", {}))
    if seen != set(ALL_SCHEMAS):
        ctx.fail_harness("schema versions not covered: %s" % sorted(set(ALL_SCHEMAS) - seen))
    for need in ("create_root_crate", "create_sub_crate", "set_name", "set_parent", "remove_crate"):
        if not ctx.extra.get("ops", {}).get(need):
            ctx.fail_harness("operation never exercised: " + need)


def replay(ctx, doc):
    r = doc["replay"]
    if r.get("big_subtree"):
        c = big_subtree_case("replay", ctx.rng, r["schema"], r["big_subtree"])
        judge_big(ctx, runner.run_one(c, cfg="plain", stall_timeout=900))
        return
    ops = r["ops"]
    metas = []
    for op in ops:
        o = op["op"]
        if o.startswith("create_"):
            metas.append({"kind": "create", "h": op["as"], "parent": op.get("c"), "name": op["name"], "after": op.get("after")})
        elif o == "set_name":
            metas.append({"kind": "set_name", "h": op["c"], "name": op["name"]})
        elif o == "set_parent":
            metas.append({"kind": "set_parent", "h": op["c"], "parent": op["parent"]})
        elif o == "remove_crate":
            metas.append({"kind": "remove_crate", "h": op["c"]})
        else:
            metas.append(None)
    judge_case(ctx, runner.run_one(wrap_case("replay", r["schema"], ops, metas), cfg="plain"))
