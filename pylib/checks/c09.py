"""C09 - ordered listings keep every sibling and entry exactly once, in order (schema 2.x).

Uses the history machinery and judge of c08.py with the ordered oracle switched
on: ordered sibling lists per parent (root_crates(), children(), root_ids(),
child_ids()) and ordered entry lists per crate (tracks(), get_for_list())."""
from .. import forest as FO, runner
from ..framework import V2_SCHEMAS
from . import c08

LEVEL = "exploration"
RULE = ("2.x histories over create_root_crate[_after], create_sub_crate[_after] (first / middle / last positions), "
        "set_parent, set_name, remove_crate and add/remove/clear of tracks on 3-5 crates; after every step the ordered "
        "listings of every parent and every crate are compared with ordered reference lists (placement of an item "
        "created without a position or moved to a new parent is adopted from the observation, everything else is "
        "fixed); non-trivial = the history contains a positional create, a move or removal of a non-last sibling and "
        ">= 8 membership ops; distinct by canonical history")


def gen_history(rng, schema, n_ops):
    st = FO.GenState(schema)
    ops, metas = [], []

    def push(pair):
        op, meta = pair
        if op is not None:
            ops.append(op)
            metas.append(meta)

    for _ in range(rng.randrange(2, 4)):
        push(FO.gen_track_create(rng, st))
    for h in list(st.tracks)[:1]:
        st.tracks[h] = False
        push(({"op": "remove_track", "t": h}, {"kind": "remove_track", "t": h}))
    for _ in range(rng.randrange(3, 6)):
        push(FO.gen_crate_op(rng, st, hostile=False))
    for _ in range(rng.randrange(2, 4)):
        push(FO.gen_track_create(rng, st))
    for _ in range(n_ops):
        r = rng.random()
        if r < 0.47:
            push(FO.gen_crate_op(rng, st, hostile=False))
        elif r < 0.55:
            push(FO.gen_foreign_reorder(rng, st))
        else:
            push(FO.gen_membership_op(rng, st))
    return ops, metas


def long_list_cases(ctx):
    """One crate holding thousands of entries (a 'whole collection' playlist): the listing must still give every entry once, in the
    order added - through crate::tracks() and through the entity table - also after the first, middle and last entry are
    removed and another is appended."""
    cases = []
    for i, schema in enumerate(V2_SCHEMAS):
        if ctx.tier == "quick":
            n = 10500 if (i + ctx.seed) % len(V2_SCHEMAS) in (0, 3) else 1500
        else:
            n = 25000
        keep = [0, n // 2, n - 1]
        ops = [{"op": "lib_create_temporary", "schema": schema}, {"op": "set_budget", "vdbe": 4 * 10 ** 10},
               {"op": "create_root_crate", "name": FO.hx("Collection"), "as": "cL"},
               {"op": "crate_query", "c": "cL", "q": "id", "bind": "lid"},
               {"op": "bulk_fill", "c": "cL", "n": n, "prefix": FO.hx("collection"), "keep": keep, "as": "bk"},
               {"op": "crate_query", "c": "cL", "q": "tracks"}, {"op": "pe_track_ids", "list": "$lid"},
               {"op": "remove_track_from", "c": "cL", "t": "bk_%d" % keep[0]}, {"op": "remove_track_from", "c": "cL", "t": "bk_%d" % keep[1]},
               {"op": "remove_track_from", "c": "cL", "t": "bk_%d" % keep[2]},
               {"op": "create_track", "as": "tx", "snap": {"relative_path": FO.hx("collection/one more.mp3")}},
               {"op": "add_track", "c": "cL", "t": "tx"},
               {"op": "crate_query", "c": "cL", "q": "tracks"}, {"op": "pe_track_ids", "list": "$lid"}]
        cases.append({"id": "long%d" % i, "schema": schema, "ops": ops, "_n": n, "_keep": keep, "no_tz": True, "no_disk": True})
    return cases


def judge_long(ctx, res):
    case = res.case
    schema, n, keep = case["schema"], case["_n"], case["_keep"]
    wit = {"schema": schema, "long_list": n, "ops": case["ops"]}
    ctx.count()
    if res.crash:
        c = res.crash
        ctx.violation(f"op-did-not-complete v2 long-list {c.get('op')} {c['kind']}", f"{schema}: {c.get('op')} on a list of {n} entries did not complete: {c['kind']}", wit)
        return
    ev = res.events
    bad = [k for k, e in enumerate(ev) if "exc" in e]
    if bad:
        x = ev[bad[0]]["exc"]
        ctx.violation(f"long-list-op-throws v2 {case['ops'][bad[0]]['op']}", f"{schema}: {case['ops'][bad[0]]['op']} on a list of {n} entries throws {x['type']}", wit)
        return
    ids = ev[4]["ret"]
    ctx.bump_in("long_list_entries", str(n))
    ctx.nontriv({"schema": schema, "long": n})
    after = [x for j, x in enumerate(ids) if j not in keep] + [ev[10]["ret"]]
    for k, want, what in ((5, ids, "tracks()"), (6, ids, "track_ids()"), (12, after, "tracks() after removals and an append"),
                          (13, after, "track_ids() after removals and an append")):
        got = ev[k]["ret"]
        if got != want:
            miss = len(set(want) - set(got))
            ctx.violation(f"long-list-listing-wrong v2 {what.split('(')[0]}",
                          f"{schema}: {what} of a crate with {len(want)} entries returns {len(got)} ids ({miss} missing, "
                          f"{'order differs' if sorted(got) == sorted(want) else 'content differs'}); first expected {want[:2]}, first got {got[:2]}", wit)


def run(ctx):
    runner.run_cases(long_list_cases(ctx), cfg="plain", on_result=lambda r: judge_long(ctx, r), stall_timeout=600)
    if not ctx.extra.get("long_list_entries"):
        ctx.fail_harness("the long-list cases judged nothing")
    per = 60 if ctx.tier == "quick" else 3000
    cases = []
    n = 0
    for schema in V2_SCHEMAS:
        for k in range(per):
            ops, metas = gen_history(ctx.rng, schema, 25 + (k % 4) * 5)
            # one history in six runs in a library whose id counters straddle 2^31, 2^32 or lie far beyond
            first = None
            if k % 6 == 5:
                first = [2 ** 31 - 4, 2 ** 32 - 4, 2 ** 31 + 10, 2 ** 53 - 4, 2 ** 62][(k // 6) % 5]
                ctx.bump_in("histories_with_first_id", str(first))
            cases.append(c08.wrap_case("o%d" % n, schema, ops, metas, ordered=True, first_id=first))
            n += 1
    c0 = cases[0]
    ctx.sample({"schema": c0["schema"], "ops": [o for o in c0["ops"] if o["op"] not in ("observe_all", "note", "table_observe")][:12]})
    ctx.assumptions += ["placement of a crate created without a position, or moved to a new parent, is not specified: it must "
                        "appear exactly once and the other siblings keep their relative order; the observed position is adopted",
                        "listings across different parents have no mutual order"]
    runner.run_cases(cases, cfg="plain", on_result=lambda r: c08.judge_case(ctx, r, "C09"))
    seen = set(ctx.extra.get("cases_by_schema", {}))
    if seen != set(V2_SCHEMAS):
        ctx.fail_harness("schema versions not covered: %s" % sorted(set(V2_SCHEMAS) - seen))
    for need in ("create_crate", "set_parent", "remove_crate", "add_track", "remove_track_from"):
        if not ctx.extra.get("ops", {}).get(need):
            ctx.fail_harness("operation never exercised: " + need)
    if not ctx.extra.get("table_listing_checks"):
        ctx.fail_harness("table-API listings were never compared")


def replay(ctx, doc):
    r = doc["replay"]
    if r.get("long_list"):
        n = r["long_list"]
        judge_long(ctx, runner.run_one({"id": "replay", "schema": r["schema"], "ops": r["ops"], "_n": n, "_keep": [0, n // 2, n - 1], "no_tz": True,
                                        "no_disk": True}, cfg="plain", stall_timeout=600))
        return
    c08.replay(ctx, doc, ordered=True)
