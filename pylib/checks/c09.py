"""C09 - ordered listings keep every sibling and entry exactly once, in order (schema 2.x).

Uses the history machinery and judge of c08.py with the ordered oracle switched
on: ordered sibling lists per parent (root_crates(), children(), root_ids(),
child_ids()) and ordered entry lists per crate (tracks(), get_for_list())."""
from .. import forest as FO, runner
from ..framework import V2_SCHEMAS
from . import c08

LEVEL = "exploration"
RULE = ("2.x histories over create_root_crate[_after], create_sub_crate[_after] (first / middle / last positions), "
        "set_parent, set_name, remove_crate and add/remove/clear of tracks on 3-5 crates; after every step the ordered "
        "listings of every parent and every crate are compared with ordered reference lists (placement of an item "
        "created without a position or moved to a new parent is adopted from the observation, everything else is "
        "fixed); non-trivial = the history contains a positional create, a move or removal of a non-last sibling and "
        ">= 8 membership ops; distinct by canonical history")


def gen_history(rng, schema, n_ops):
    st = FO.GenState(schema)
    ops, metas = [], []

    def push(pair):
        op, meta = pair
        if op is not None:
            ops.append(op)
            metas.append(meta)

    for _ in range(rng.randrange(2, 4)):
        push(FO.gen_track_create(rng, st))
    for h in list(st.tracks)[:1]:
        st.tracks[h] = False
        push(({"op": "remove_track", "t": h}, {"kind": "remove_track", "t": h}))
    for _ in range(rng.randrange(3, 6)):
        push(FO.gen_crate_op(rng, st, hostile=False))
    for _ in range(rng.randrange(2, 4)):
        push(FO.gen_track_create(rng, st))
    for _ in range(n_ops):
        r = rng.random()
        if r < 0.47:
            push(FO.gen_crate_op(rng, st, hostile=False))
        elif r < 0.55:
            push(FO.gen_foreign_reorder(rng, st))
        else:
            push(FO.gen_membership_op(rng, st))
    return ops, metas


def run(ctx):
    per = 60 if ctx.tier == "quick" else 3000
    cases = []
    n = 0
    for schema in V2_SCHEMAS:
        for k in range(per):
            ops, metas = gen_history(ctx.rng, schema, 25 + (k % 4) * 5)
            # one history in six runs in a library whose id counters straddle 2^31, 2^32 or lie far beyond
            first = None
            if k % 6 == 5:
                first = [2 ** 31 - 4, 2 ** 32 - 4, 2 ** 31 + 10, 2 ** 53 - 4, 2 ** 62][(k // 6) % 5]
                ctx.bump_in("histories_with_first_id", str(first))
            cases.append(c08.wrap_case("o%d" % n, schema, ops, metas, ordered=True, first_id=first))
            n += 1
    c0 = cases[0]
    ctx.sample({"schema": c0["schema"], "ops": [o for o in c0["ops"] if o["op"] not in ("observe_all", "note", "table_observe")][:12]})
    ctx.assumptions += ["placement of a crate created without a position, or moved to a new parent, is not specified: it must "
                        "appear exactly once and the other siblings keep their relative order; the observed position is adopted",
                        "listings across different parents have no mutual order"]
    runner.run_cases(cases, cfg="plain", on_result=lambda r: c08.judge_case(ctx, r, "C09"))
    seen = set(ctx.extra.get("cases_by_schema", {}))
    if seen != set(V2_SCHEMAS):
        ctx.fail_harness("schema versions not covered: %s" % sorted(set(V2_SCHEMAS) - seen))
    for need in ("create_crate", "set_parent", "remove_crate", "add_track", "remove_track_from"):
        if not ctx.extra.get("ops", {}).get(need):
            ctx.fail_harness("operation never exercised: " + need)
    if not ctx.extra.get("table_listing_checks"):
        ctx.fail_harness("table-API listings were never compared")


def replay(ctx, doc):
    c08.replay(ctx, doc, ordered=True)
