"""C10 - everything observed before closing is observed after reopening.

On-disk libraries at each of the 18 versions; mixed histories (rich tracks,
setters, crates, memberships); at chosen points every handle and the database
are released, the library is loaded again from its directory, the handles that
were valid are re-acquired by id, and the two full observations are compared.
Also: load reports the version created; create_or_load creates exactly when no
library exists; database_exists agrees."""
import os
import shutil

from .. import gen_hist as GH, runner
from ..framework import DIR_NAME_POOL, dir_name, ALL_SCHEMAS, family

LEVEL = "exploration"
RULE = ("on-disk libraries on all 18 versions populated by mixed histories (2+ richly described tracks, single-field "
        "setters, crate create/rename/move/remove, memberships), with a release-everything/load/re-acquire step after "
        "about a third of the prefixes and always at the end; plus the create_or_load / database_exists decision table "
        "on empty, populated and foreign-version directories; non-trivial = the state at a reopen has >= 2 tracks with "
        "performance data, >= 3 crates and >= 2 memberships; distinct by canonical history")


def diff_paths(a, b, path="", out=None, limit=6):
    if out is None:
        out = []
    if len(out) >= limit:
        return out
    if isinstance(a, dict) and isinstance(b, dict):
        for k in sorted(set(a) | set(b)):
            if k not in a or k not in b:
                out.append(path + "/" + k + (" (only before)" if k in a else " (only after)"))
            else:
                diff_paths(a[k], b[k], path + "/" + k, out, limit)
            if len(out) >= limit:
                break
    elif isinstance(a, list) and isinstance(b, list):
        if len(a) != len(b):
            out.append(path + " (length %d -> %d)" % (len(a), len(b)))
        else:
            for i, (x, y) in enumerate(zip(a, b)):
                diff_paths(x, y, path + "[%d]" % i, out, limit)
                if len(out) >= limit:
                    break
    elif a != b:
        out.append(path + " (%s -> %s)" % (str(a)[:40], str(b)[:40]))
    return out


def generic_site(p):
    """Reduce a diff path to a stable site: drop ids and indices."""
    import re
    p = p.split(" (")[0]
    p = re.sub(r"/\d+", "/#", p)
    p = re.sub(r"\[\d+\]", "[]", p)
    p = re.sub(r"/[0-9a-f]{6,}", "/<hex>", p)
    return p


SYMLINK_DOTDOT = [0]


def make_case(cid, rng, schema, root, n_ops, every, name_k=0):
    from ..framework import dir_name
    d = os.path.join(root, dir_name(cid, name_k))
    if name_k % 9 == 4:
        d = os.path.relpath(d)   # the library is named relative to the working directory throughout
    elif name_k % 9 == 7:
        # the library is named by a path that climbs out of a symlinked folder: "<root>/via_x/../lib" with via_x -> phys_x/deep is
        # physically <root>/phys_x/lib, whereas collapsing the ".." textually would give <root>/lib
        os.makedirs(os.path.join(root, "phys_" + cid, "deep"), exist_ok=True)
        if not os.path.islink(os.path.join(root, "via_" + cid)):
            os.symlink(os.path.join("phys_" + cid, "deep"), os.path.join(root, "via_" + cid))
        d = os.path.join(root, "via_" + cid, "..", dir_name(cid, name_k))
        SYMLINK_DOTDOT[0] += 1
    ops, metas = GH.gen_library_history(rng, schema, n_ops)
    from ..framework import is_v2
    full = [{"op": "lib_create" if is_v2(schema) else "create", "schema": schema, "dir": d}]
    marks = [None]
    if name_k % 6 == 2:
        # the database files in write-ahead-log mode, as Engine DJ itself leaves them (content then lives partly in -wal files
        # until the last connection closes)
        full.append({"op": "raw_exec", "sql": "PRAGMA journal_mode = WAL" if is_v2(schema) else "PRAGMA music.journal_mode = WAL"})
        marks.append({"kind": "wal"})
        if not is_v2(schema):
            full.append({"op": "raw_exec", "sql": "PRAGMA perfdata.journal_mode = WAL"})
            marks.append(None)
    if name_k % 5 == 3:
        # a library whose ids are those of a long-lived one (around 2^31 / 2^32 / 2^53)
        pre = GH.first_id_prelude(schema, GH.FIRST_IDS[(name_k // 5) % len(GH.FIRST_IDS)])
        full += pre
        marks += [None] * len(pre)
    for i, (op, m) in enumerate(zip(ops, metas)):
        full.append(op)
        marks.append(m)
        if every and (i % every == every - 1):
            full.append({"op": "reopen", "dir": d, "verify": True})
            marks.append({"kind": "reopen"})
    if name_k % 4 == 1:
        # a transient failure in the middle of the history: one crate/membership operation is first made to fail at each of its
        # statements in turn (SQLITE_BUSY, as when another program holds the file), then succeeds; what the library shows
        # afterwards must still be what is found after the next reopen
        cand = [i for i, o in enumerate(full) if o.get("op") in ("add_track", "create_root_crate", "create_sub_crate", "set_name", "set_parent",
                                                                 "remove_track_from", "clear_tracks")]
        if cand:
            i = cand[len(cand) // 2]
            full[i] = {"op": "fault_sweep", "inner": full[i], "code": 5, "max_k": 60, "keep_going": True}
    full.append({"op": "reopen", "dir": d, "verify": True})
    marks.append({"kind": "reopen"})
    full.append({"op": "exists", "dir": d})
    marks.append({"kind": "exists"})
    full.append({"op": "release_all"})
    marks.append(None)
    # create_or_load over the existing library, asking for a different version
    other = "2.21.2" if not schema.startswith("2.21.2") else "1.6.0"
    full.append({"op": "create_or_load", "schema": other, "dir": d + ("/" if rng.random() < 0.5 else "")})
    marks.append({"kind": "create_or_load_existing"})
    full.append({"op": "observe_all", "snapshots": False})
    marks.append({"kind": "observe_after_col"})
    if name_k % 3 == 2:
        # a second life in the same place, within the same process: the library is deleted and a new one of the same version
        # is started there with one track and one crate; nothing of the first may show, and the new content must survive a reopen
        from .. import gen_snap as GS
        if name_k % 6 == 5:
            # ... while somebody in the process still holds the FIRST library, loaded from the same path, open (a stale browser
            # window): the files it has open are unlinked, the new library must not be confused with it
            full += [{"op": "load", "dir": d, "lib": 1}]
            marks += [{"kind": "stale_holder"}]
        full += [{"op": "release_all"}, {"op": "wipe_dir", "dir": d},
                 {"op": "lib_create" if is_v2(schema) else "create", "schema": schema, "dir": d},
                 {"op": "create_track", "as": "n0", "snap": {"relative_path": GS.hx("second/life.mp3"), "title": GS.hx("second life")}},
                 {"op": "create_root_crate", "name": GS.hx("Second"), "as": "nc0"}, {"op": "add_track", "c": "nc0", "t": "n0"},
                 {"op": "observe_all", "snapshots": True}, {"op": "reopen", "dir": d, "verify": True}]
        marks += [None, None, None, None, None, None, {"kind": "second_life"}, {"kind": "reopen"}]
    return {"id": cid, "schema": schema, "dir": d, "ops": full, "_marks": marks}


def count_state(obs):
    tracks = obs.get("tracks") or {}
    perf = 0
    for t in tracks.values():
        sn = t.get("snapshot")
        if isinstance(sn, dict) and (sn.get("beatgrid") or any(sn.get("hot_cues") or []) or sn.get("waveform")):
            perf += 1
    crates = obs.get("crates") or {}
    members = sum(len(c["tracks"]) for c in crates.values() if isinstance(c.get("tracks"), list))
    return perf, len(crates), members


def judge_case(ctx, res):
    case = res.case
    schema = case["schema"]
    fam = family(schema)
    ops, marks = case["ops"], case["_marks"]
    ctx.bump_in("cases_by_schema", schema)
    wit = {"schema": schema, "ops": ops}
    last_before = None
    nontriv = False
    for k, ev in enumerate(res.events):
        m = marks[k]
        if m is None:
            continue
        kind = m["kind"]
        if kind == "reopen":
            ctx.count()
            if "exc" in ev:
                x = ev["exc"]
                if "harness_error" in x.get("is", []):
                    ctx.fail_harness("reopen failed in the harness")
                    return
                what = bytes.fromhex(x.get("what", "")).decode(errors="replace")[:120]
                ctx.violation(f"reopen-throws {fam} {x['type']}", f"{schema}: loading the library again (or observing it) throws {x['type']}: {what}", wit)
                return
            r = ev["ret"]
            ctx.bump("reopens")
            # (the connection of a deliberately held stale library in the other slot is not a leak)
            held = 1 if any(mm and mm.get("kind") == "stale_holder" for mm in marks[:k]) else 0
            if r["conns_after_release"] != held:
                ctx.violation(f"connection-leak {fam}", f"{schema}: {r['conns_after_release']} SQLite connection(s) still open after every handle was released", wit)
            if r["loaded_schema"] != schema:
                ctx.violation(f"loaded-schema-wrong {fam}", f"{schema}: load_database reported loaded_schema = {r['loaded_schema']!r}", wit)
            if r["version_name"] != schema:
                ctx.violation(f"version-name-wrong {fam}", f"{schema}: version_name() after load = {r['version_name']!r}", wit)
            before, after = r["before"], r["after"]
            from ..framework import held_handles
            held_handles(ctx, before, fam, schema, wit, " (before a reopen)")
            ctx.state("distinct_library_states_reopened", {"db": before.get("db"), "crates": before.get("crates"), "tracks": before.get("tracks")})
            hb = {h: x for h, x in (before.get("track_handles") or {}).items() if x.get("valid") is True}
            ha = after.get("track_handles") or {}
            cb = {h: x for h, x in (before.get("crate_handles") or {}).items() if x.get("valid") is True}
            ca = after.get("crate_handles") or {}
            if hb != ha or cb != ca:
                ctx.violation(f"reopen-differs {fam} handles", f"{schema}: handles valid before closing are not all found again by id", wit)
            if before.get("tables") is not None:
                ctx.bump("reopens_with_table_view")
            for sec in ("db", "crates", "tracks", "tables"):
                for p in diff_paths(before.get(sec), after.get(sec)):
                    ctx.violation(f"reopen-differs {fam} {sec}{generic_site(p)}",
                                  f"{schema}: observation differs after close and reload at {sec}{p}", wit)
            perf, nc, nm = count_state(before)
            ctx.bump_in("reopen_state_sizes", "tracks_with_perf>=2,crates>=3,memberships>=2" if (perf >= 2 and nc >= 3 and nm >= 2) else "smaller")
            if perf >= 2 and nc >= 3 and nm >= 2:
                nontriv = True
            last_before = after
        elif kind == "exists":
            if ev.get("ret") is not True:
                ctx.violation(f"exists-false-for-library {fam}", f"{schema}: database_exists() is not true for a created library", wit)
        elif kind == "create_or_load_existing":
            ctx.count()
            if "exc" in ev:
                ctx.violation(f"create_or_load-throws {fam}", f"{schema}: create_or_load on an existing library throws {ev['exc']['type']}", wit)
                return
            r = ev["ret"]
            if r["created"]:
                ctx.violation(f"create_or_load-created-over-existing {fam}", f"{schema}: create_or_load reported created=true for an existing library", wit)
            if r["loaded_schema"] != schema or r["version_name"] != schema:
                ctx.violation(f"create_or_load-schema-wrong {fam}", f"{schema}: create_or_load on an existing library reports {r['loaded_schema']!r}/{r['version_name']!r}", wit)
        elif kind == "wal":
            if "ret" in ev and "wal" in str(ev["ret"]).lower() or "77616c" in str(ev.get("ret")):
                ctx.bump("libraries_in_wal_mode")
        elif kind == "stale_holder":
            ctx.bump("second_life_cases_with_the_first_library_still_held_open")
        elif kind == "second_life":
            ctx.bump("second_life_cases")
            if "ret" in ev:
                o = ev["ret"]
                tr, cr = o.get("tracks") or {}, o.get("crates") or {}
                titles = sorted((t.get("get", {}).get("title") or "") for t in tr.values())
                from .. import gen_snap as GS
                if len(tr) != 1 or len(cr) != 1 or titles != [GS.hx("second life")]:
                    ctx.violation(f"second-life-shows-first {fam}", f"{schema}: a library created in the place of a deleted one shows {len(tr)} tracks "
                                  f"and {len(cr)} crates (titles {titles[:3]}) instead of its own one track and one crate", wit)
            else:
                ctx.violation(f"second-life-unobservable {fam}", f"{schema}: observing a library created in the place of a deleted one throws", wit)
        elif kind == "observe_after_col":
            if "ret" in ev and last_before is not None:
                a, b = last_before["db"], ev["ret"]["db"]
                for key in ("crates", "tracks", "uuid"):
                    if a.get(key) != b.get(key):
                        ctx.violation(f"create_or_load-lost-content {fam} {key}", f"{schema}: after create_or_load on an existing library {key} changed", wit)
        else:
            if "exc" in ev and not ev["exc"].get("std", True):
                ctx.violation(f"non-std-exception {fam} {kind}", "non-std exception", wit)
    if res.crash:
        c = res.crash
        if c["op_index"] < 0:
            ctx.fail_harness("executor died outside any op: %s" % c["kind"])
            return
        ctx.violation(f"op-did-not-complete {fam} {c.get('op')} {c['kind']} at={c['site']}",
                      f"{schema}: {c.get('op')} did not complete: {c['kind']} in {c['site']}", dict(wit, crash=c["kind"]))
    if nontriv:
        ctx.nontriv({"schema": schema, "ops": [o for o in ops]})


def decision_cases(root):
    """create_or_load / exists on an empty directory, for every version."""
    cases = []
    n = 0
    for i, schema in enumerate(ALL_SCHEMAS):
      # what is already in the place where the library is to be created: an empty directory, nothing at all, a Database2
      # folder without a database (a library reset by deleting m.db, a copied folder skeleton), unrelated files
      for shape in ("empty-directory", "no-directory", "empty-Database2-folder", "unrelated-files-and-Database2-folder"):
        d = os.path.join(root, dir_name("dec%d" % n, n))
        n += 1
        ops = [{"op": "exists", "dir": d},
               {"op": "create_or_load", "schema": schema, "dir": d, "alias": i % 2 == 1},
               {"op": "exists", "dir": d},
               {"op": "release_all"},
               {"op": "load", "dir": d},
               {"op": "release_all"},
               {"op": "exists", "dir": os.path.join(d, "no-such-subdir")}]
        cases.append({"id": "dec%d" % n, "schema": schema, "dir": d, "ops": ops, "_decision": True, "_shape": shape})
    return cases


def judge_decision(ctx, res):
    schema = res.case["schema"]
    fam = family(schema)
    wit = {"schema": schema, "ops": res.case["ops"]}
    ev = res.events
    ctx.count()
    ctx.bump("decision_table_rows")
    ctx.bump_in("decision_table_directory_shapes", res.case.get("_shape", "empty-directory"))
    if res.crash or len(ev) < 7:
        ctx.violation(f"decision-table-incomplete {fam}", f"{schema}: create_or_load decision sequence did not complete", wit)
        return
    if ev[0].get("ret") is not False:
        ctx.violation(f"exists-true-for-empty {fam}", f"{schema}: database_exists() is true for an empty directory", wit)
    if "exc" in ev[1]:
        ctx.violation(f"create_or_load-throws {fam} empty", f"{schema}: create_or_load on an empty directory throws {ev[1]['exc']['type']}", wit)
        return
    r = ev[1]["ret"]
    if not r["created"]:
        ctx.violation(f"create_or_load-not-created {fam}", f"{schema}: create_or_load on an empty directory reported created=false", wit)
    # loaded_schema is documented as undefined when a new database was created; only the version is judged
    if r["version_name"] != schema:
        ctx.violation(f"create_or_load-schema-wrong {fam} created", f"{schema}: create_or_load (creating) yields version {r['version_name']!r}", wit)
    if ev[2].get("ret") is not True:
        ctx.violation(f"exists-false-for-library {fam}", f"{schema}: database_exists() false right after creation", wit)
    if "exc" in ev[4]:
        ctx.violation(f"reopen-throws {fam} {ev[4]['exc']['type']}", f"{schema}: loading a freshly created library throws", wit)
    else:
        r = ev[4]["ret"]
        if r["loaded_schema"] != schema:
            ctx.violation(f"loaded-schema-wrong {fam}", f"{schema}: load_database reported loaded_schema = {r['loaded_schema']!r}", wit)
        if r["version_name"] != schema:
            ctx.violation(f"version-name-wrong {fam}", f"{schema}: version_name() after load = {r['version_name']!r}", wit)
    if ev[6].get("ret") is not False:
        ctx.violation(f"exists-true-for-missing {fam}", f"{schema}: database_exists() true for a directory that does not exist", wit)


def run(ctx):
    per = 25 if ctx.tier == "quick" else 300
    root = runner.scratch_dir("djc10_")
    try:
        cases = []
        n = 0
        for schema in ALL_SCHEMAS:
            for k in range(per):
                every = 1 if (ctx.tier != "quick" and k % 10 == 0) else 3
                # every other library lives in a directory whose name has characters special to URIs, SQL or shells
                name_k = (n // 2) if n % 2 else 0
                cases.append(make_case("d%d" % n, ctx.rng, schema, root, 18 + (k % 3) * 6, every, name_k))
                if name_k:
                    ctx.bump_in("directory_name_shapes", DIR_NAME_POOL[name_k % len(DIR_NAME_POOL)].format("NAME")[:24])
                n += 1
        ctx.extra["libraries_named_by_a_path_with_dotdot_after_a_symlink"] = SYMLINK_DOTDOT[0]
        dec = decision_cases(root)
        for c in cases + dec:
            shape = c.get("_shape", "empty-directory")
            if shape == "no-directory":
                os.makedirs(os.path.dirname(c["dir"]), exist_ok=True)
                continue
            os.makedirs(c["dir"], exist_ok=True)
            if shape != "empty-directory":
                os.makedirs(os.path.join(c["dir"], "Database2"), exist_ok=True)
            if shape == "unrelated-files-and-Database2-folder":
                open(os.path.join(c["dir"], "notes.txt"), "w").write("x")
                open(os.path.join(c["dir"], "Database2", "other.db"), "w").write("y")
        c0 = cases[0]
        ctx.sample({"schema": c0["schema"], "ops": [{k: (str(v)[:60]) for k, v in o.items()} for o in c0["ops"][:10]]})
        ctx.assumptions += ["the observation is compared with itself across close/reload, so no normalisation is involved",
                            "handles are re-acquired by id through track_by_id/crate_by_id"]

        def on(r):
            if r.case.get("_decision"):
                judge_decision(ctx, r)
            else:
                judge_case(ctx, r)

        runner.run_cases(cases + dec, cfg="plain", on_result=on)
    finally:
        shutil.rmtree(root, ignore_errors=True)
    seen = set(ctx.extra.get("cases_by_schema", {}))
    if seen != set(ALL_SCHEMAS):
        ctx.fail_harness("schema versions not covered: %s" % sorted(set(ALL_SCHEMAS) - seen))
    if ctx.extra.get("reopens", 0) < len(ALL_SCHEMAS):
        ctx.fail_harness("too few reopen steps completed")


def replay(ctx, doc):
    r = doc["replay"]
    root = runner.scratch_dir("djc10r_")
    try:
        ops = r["ops"]
        old = None
        for o in ops:
            if "dir" in o:
                old = o["dir"] if old is None else old
        d = os.path.join(root, "replay")
        os.makedirs(d, exist_ok=True)
        new_ops = []
        for o in ops:
            o = dict(o)
            if "dir" in o and old:
                o["dir"] = o["dir"].replace(old, d)
            new_ops.append(o)
        is_dec = len(new_ops) == 7 and new_ops[0]["op"] == "exists"
        case = {"id": "replay", "schema": r["schema"], "dir": d, "ops": new_ops}
        if is_dec:
            case["_decision"] = True
            judge_decision(ctx, runner.run_one(case, cfg="plain"))
        else:
            marks = []
            wiped = False
            for o in new_ops:
                k = o["op"]
                if k == "wipe_dir":
                    wiped = True
                    marks.append(None)
                elif k == "load" and o.get("lib"):
                    marks.append({"kind": "stale_holder"})
                elif wiped and k == "observe_all":
                    marks.append({"kind": "second_life"})
                elif wiped and k != "reopen":
                    marks.append(None)
                elif k == "reopen":
                    marks.append({"kind": "reopen"})
                elif k == "exists":
                    marks.append({"kind": "exists"})
                elif k == "create_or_load":
                    marks.append({"kind": "create_or_load_existing"})
                elif k == "observe_all":
                    marks.append({"kind": "observe_after_col"})
                elif k in ("create", "release_all"):
                    marks.append(None)
                else:
                    marks.append({"kind": k})
            case["_marks"] = marks
            judge_case(ctx, runner.run_one(case, cfg="plain"))
    finally:
        shutil.rmtree(root, ignore_errors=True)
