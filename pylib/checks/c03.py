"""C03 - every blob codec decodes its own encoding to the original value."""
import copy

from .. import codec_run, gen_values as G
from ..engine_codec import MINUS1, KINDS, dbits

LEVEL = "exploration"
RULE = ("values of each of the 11 blob structs from per-field pools (every double class by bit pattern, integer "
        "edges, labels 0..300 bytes of arbitrary bytes, 0..12 cue/loop entries, grids up to 40000 markers, waveforms "
        "up to 100000 points, arbitrary extra_data) plus the boundary ladders the statement names; a value is "
        "non-trivial when it has >=1 list entry or a non-zero double outside {0,1}; distinct by canonical value")

LABEL_LADDER = [0, 1, 254, 255, 256, 257, 300]


# entry counts around every power of two a narrower count field or a fixed buffer could stop at
COUNT_LADDER = (127, 128, 129, 255, 256, 257, 1023, 1024, 1025, 4095, 4096, 4097, 16383, 16384, 16385, 32767, 32768, 32769, 40000)
WAVE_LADDER = (65535, 65536, 65537, 100000)


def long_label(rng, n):
    return bytes(rng.choice(b"abcdefghij") for _ in range(n)).hex()


def boundary_values(kind, rng):
    """(value, cls, tag): cls 'roundtrip' must round-trip; 'either' must round-trip or be rejected."""
    out = []
    if kind == "v2_quick_cues":
        for n in LABEL_LADDER:
            v = G.v2_quick_cues(rng)
            v["cues"] = [G.v2_quick_cue(rng) for _ in range(rng.randrange(1, 9))]
            v["cues"][rng.randrange(len(v["cues"]))]["label"] = long_label(rng, n)
            out.append((v, "roundtrip" if n <= 255 else "either", "label=%d" % n))
        for n in range(0, 13):
            v = G.v2_quick_cues(rng)
            v["cues"] = [G.v2_quick_cue(rng, 20) for _ in range(n)]
            out.append((v, "roundtrip", "entries=%d" % n))
    elif kind == "v2_loops":
        for n in LABEL_LADDER:
            v = G.v2_loops(rng)
            v["loops"] = [G.v2_loop(rng) for _ in range(rng.randrange(1, 9))]
            v["loops"][rng.randrange(len(v["loops"]))]["label"] = long_label(rng, n)
            out.append((v, "roundtrip" if n <= 255 else "either", "label=%d" % n))
        for n in range(0, 13):
            v = G.v2_loops(rng)
            v["loops"] = [G.v2_loop(rng, 20) for _ in range(n)]
            out.append((v, "roundtrip", "entries=%d" % n))
    elif kind == "v2_beat_data":
        for n in (0, 1, 2) + COUNT_LADDER:
            v = G.v2_beat_data(rng)
            v["adjusted"] = [[dbits(float(i) + (rng.random() if n % 2 else 0.0)), i, 1, 0] for i in range(n)]
            v["default"] = v["adjusted"][: n // 2]
            out.append((v, "roundtrip", "markers=%d" % n))
    elif kind == "v2_overview":
        for n in (0, 1) + COUNT_LADDER + WAVE_LADDER:
            v = G.v2_overview(rng)
            v["points"] = bytes((i * 3) & 255 for i in range(3 * n)).hex()
            out.append((v, "roundtrip", "points=%d" % n))
    elif kind == "v2_track_data":
        for ex in ("", "00", "00" * 9, "ff" * 64):
            v = G.v2_track_data(rng)
            v["extra"] = ex
            out.append((v, "roundtrip", "extra=%d" % (len(ex) // 2)))
    elif kind == "v1_quick_cues":
        for n in LABEL_LADDER:
            v = G.v1_quick_cues(rng)
            v["cues"][rng.randrange(8)] = dict(G.v1_hot_cue(rng), label=long_label(rng, n))
            out.append((v, "roundtrip" if 1 <= n <= 255 else "either", "label=%d" % n))
        for n in range(0, 13):
            v = G.v1_quick_cues(rng, n)
            out.append((v, "roundtrip" if n == 8 else "either", "entries=%d" % n))
        v = G.v1_quick_cues(rng)
        v["cues"][3] = dict(G.v1_hot_cue(rng), off=MINUS1)
        out.append((v, "roundtrip", "offset=-1"))
    elif kind == "v1_loops":
        for n in LABEL_LADDER:
            v = G.v1_loops(rng, 8)
            v["loops"][rng.randrange(8)] = dict(G.v1_loop(rng), label=long_label(rng, n))
            out.append((v, "roundtrip" if 1 <= n <= 255 else "either", "label=%d" % n))
        for n in range(0, 13):
            out.append((G.v1_loops(rng, n), "roundtrip", "entries=%d" % n))
        v = G.v1_loops(rng, 8)
        v["loops"][5] = dict(G.v1_loop(rng), start=MINUS1)
        out.append((v, "roundtrip", "offset=-1"))
    elif kind == "v1_beat_data":
        for n in (0, 2, 3) + COUNT_LADDER:
            v = G.v1_beat_data(rng)
            v["adjusted"] = [[i, dbits(float(i) * 10 + (rng.random() if n % 2 else 0.0))] for i in range(n)]
            v["default"] = list(v["adjusted"])
            # the 1.x decoder has always refused more than 32768 markers, so the encoder may (and does) refuse them too
            out.append((v, "roundtrip" if n <= 32768 else "either", "markers=%d" % n))
        for _ in range(6):
            v = G.v1_beat_data(rng)
            g, why = G.v1_invalid_grid(rng)
            v[rng.choice(["adjusted", "default"])] = g
            out.append((v, "either", "grid=" + why))
        for f in ("sample_rate", "sample_count"):
            for z in ("0000000000000000", "8000000000000000"):
                v = G.v1_beat_data(rng)
                v[f] = z
                out.append((v, "either", f + "=Some(0)"))
    elif kind == "v1_track_data":
        for f, z in (("sample_rate", "0000000000000000"), ("sample_rate", "8000000000000000"), ("sample_count", 0),
                     ("average_loudness", "0000000000000000"), ("key", 0)):
            v = G.v1_track_data(rng)
            v[f] = z
            out.append((v, "either", f + "=Some(0)"))
        for k in range(1, 24):
            v = G.v1_track_data(rng)
            v["key"] = k
            out.append((v, "roundtrip", "key=each"))
    elif kind == "v1_high_res":
        for n in (0, 1) + COUNT_LADDER + WAVE_LADDER:
            v = G.v1_high_res(rng)
            v["waveform"] = bytes((i * 5) & 255 for i in range(6 * n)).hex()
            out.append((v, "roundtrip", "points=%d" % n))
    elif kind == "v1_overview":
        for n in (0, 1) + COUNT_LADDER + WAVE_LADDER:
            v = G.v1_overview(rng)
            w = bytearray((i * 5) & 255 for i in range(6 * n))
            for i in range(n):
                w[6 * i + 1] = w[6 * i + 3] = w[6 * i + 5] = 255
            v["waveform"] = bytes(w).hex()
            out.append((v, "roundtrip", "points=%d" % n))
        for _ in range(3):
            v = G.v1_overview(rng, opaque=False)
            if v["waveform"]:
                out.append((v, "either", "opacity!=255"))
    return out


def sentinel_variants(kind, v):
    """Values the decoder may legitimately return: entries at the reserved -1 offset read back absent."""
    alts = [v]
    if kind == "v1_quick_cues":
        w = copy.deepcopy(v)
        w["cues"] = [None if (c is not None and c["off"] == MINUS1) else c for c in w["cues"]]
        alts.append(w)
    if kind == "v1_loops":
        w = copy.deepcopy(v)
        w["loops"] = [None if (c is not None and c["start"] == MINUS1) else c for c in w["loops"]]
        alts.append(w)
    return alts


def first_diff(a, b):
    if isinstance(a, dict) and isinstance(b, dict):
        for k in sorted(set(a) | set(b)):
            if a.get(k) != b.get(k):
                sub = first_diff(a.get(k), b.get(k))
                return k + ("." + sub if sub else "")
    if isinstance(a, list) and isinstance(b, list):
        if len(a) != len(b):
            return "length"
        for i, (x, y) in enumerate(zip(a, b)):
            if x != y:
                sub = first_diff(x, y)
                return "[]" + ("." + sub if sub else "")
    return ""


def judge_item(ctx, spec, r, crash):
    kind, _fn, v, (cls, tag) = spec
    ctx.count()
    if G.value_is_nontrivial(kind, v):
        ctx.nontriv({"k": kind, "v": v})
    ctx.bump_in("by_kind", kind)
    ctx.bump_in("by_class", cls)
    small = v if len(str(v)) < 3000 else {"truncated": str(v)[:3000]}
    wit = {"kind": kind, "value": v if len(str(v)) < 200000 else small, "class": cls, "tag": tag}
    site = tag if tag != "random" else ""
    if crash:
        ctx.violation(f"crash {kind} {crash['kind']} at={crash['site']}",
                      f"{kind} encode/decode of a value died: {crash['kind']} in {crash['site']}", wit)
        return
    if r.get("nonstd"):
        ctx.violation(f"non-std-exception {kind}", "codec threw a non-std exception", wit)
        return
    if "exc" in r:
        ctx.bump_in("outcomes", "rejected")
        if r.get("big_alloc") or "bad_alloc" in r.get("is", []):
            return  # allocation refusal is a legal outcome for any value
        stage = "decode" if "bytes" in r else "encode"
        if cls == "roundtrip":
            ctx.violation(f"valid-value-rejected {kind} {stage}",
                          f"{kind}: a value in the encodable domain ({tag}) was rejected at {stage} with {r['exc']}", wit)
        elif stage == "decode":
            ctx.violation(f"unencodable-written-undecodable {kind} {tag}",
                          f"{kind}: a value the format cannot hold ({tag}) was encoded without complaint into a blob "
                          f"the decoder refuses ({r['exc']})", wit)
        return
    ctx.bump_in("outcomes", "roundtripped")
    got = r["value"]
    if any(got == alt for alt in sentinel_variants(kind, v)):
        return
    field = first_diff(v, got)
    if cls == "roundtrip":
        ctx.violation(f"roundtrip-mismatch {kind} {field}",
                      f"{kind}: decode(encode(v)) differs from v in '{field}'", wit)
    else:
        ctx.violation(f"unencodable-not-rejected {kind} {tag}",
                      f"{kind}: a value the format cannot hold ({tag}) was written in a form that decodes to "
                      f"something else ('{field}' differs) instead of being rejected", wit)


def zlib_ladder(ctx):
    """zlib_compress / zlib_uncompress round trip at the chunk boundaries of the container (and one payload per
    kind padded to each boundary through the codecs that carry free-length data)."""
    # no codec hands the container an empty payload (each has a fixed header), so the ladder starts at one byte
    sizes = [1, 2, 16383, 16384, 16385, 32767, 32768, 32769, 49152, 65535, 65536, 65537, 100000, 16384 * 8]
    specs = []
    for n in sizes:
        for fill in ("zero", "ramp", "random"):
            if fill == "zero":
                b = bytes(n)
            elif fill == "ramp":
                b = bytes((i * 7) & 255 for i in range(n))
            else:
                b = bytes(ctx.rng.randrange(256) for _ in range(n))
            specs.append(("zlib", "roundtrip", b.hex(), ("zlib", "size=%d" % n)))

    def on_item(sp, r, crash):
        ctx.count()
        ctx.bump_in("zlib_container_sizes", sp[3][1])
        wit = {"kind": "zlib", "size": len(sp[2]) // 2, "tag": sp[3][1]}
        if crash:
            ctx.violation(f"crash zlib {crash['kind']} at={crash['site']}", f"zlib container round trip died: {crash['kind']}", wit)
        elif "exc" in r:
            ctx.violation(f"zlib-container-roundtrip-rejected {sp[3][1]}", f"compress/uncompress of {len(sp[2]) // 2} bytes threw {r['exc']}", wit)
        elif r["value"] != sp[2]:
            ctx.violation(f"zlib-container-roundtrip-mismatch {sp[3][1]}", f"uncompress(compress(x)) != x for {len(sp[2]) // 2} bytes", wit)

    codec_run.run_items("san", specs, on_item, batch=10)
    # look-alike payloads decoded back to back: same length, same Adler-32 (three consecutive bytes moved by +1, -2, +1
    # leave both running sums alone), and - being noise, which deflate stores - the same compressed length.  Whatever a
    # container remembers between calls must not confuse them.  A, B, A, B run in one process, in this order.
    twins = []
    for n in (40, 3000, 20000, 70000) + ((200000, 1 << 20) if ctx.tier != "quick" else ()):
        for rep in range(3):
            a = bytearray(ctx.rng.randbytes(n))
            i = next(j for j in range(ctx.rng.randrange(0, n - 3), n - 2) if a[j] < 255 and a[j + 1] >= 2 and a[j + 2] < 255) \
                if any(a[j] < 255 and a[j + 1] >= 2 and a[j + 2] < 255 for j in range(n - 2)) else None
            if i is None:
                continue
            b = bytearray(a)
            b[i] += 1; b[i + 1] -= 2; b[i + 2] += 1
            import zlib as _z
            assert _z.adler32(bytes(a)) == _z.adler32(bytes(b)) and a != b
            for x in (a, b, a, b, b, a):
                twins.append(("zlib", "roundtrip", bytes(x).hex(), ("zlib", "look-alike-twins size=%d" % n)))
            ctx.bump("look_alike_twin_pairs_same_length_same_adler32")
            if len(_z.compress(bytes(a))) == len(_z.compress(bytes(b))):
                ctx.bump("look_alike_twin_pairs_also_same_compressed_length")
    codec_run.run_items("san", twins, on_item, batch=6)
    # ... and the same through the codecs that carry free-length content
    tw = []
    for rep in range(6):
        npts = ctx.rng.choice([200, 1024, 5000])
        pts = bytearray(ctx.rng.randbytes(3 * npts))
        j = next(j for j in range(len(pts) - 2) if pts[j] < 255 and pts[j + 1] >= 2 and pts[j + 2] < 255)
        q = bytearray(pts); q[j] += 1; q[j + 1] -= 2; q[j + 2] += 1
        base = G.v2_overview(ctx.rng)
        for x in (pts, q, pts, q):
            tw.append(("v2_overview", "roundtrip", dict(base, points=bytes(x).hex()), ("roundtrip", "look-alike-twins")))
        w = bytearray(ctx.rng.randbytes(6 * npts))
        j = next(j for j in range(len(w) - 2) if w[j] < 255 and w[j + 1] >= 2 and w[j + 2] < 255)
        w2 = bytearray(w); w2[j] += 1; w2[j + 1] -= 2; w2[j + 2] += 1
        for x in (w, w2, w, w2):
            tw.append(("v1_high_res", "roundtrip", {"spe": "4024000000000000", "waveform": bytes(x).hex()}, ("roundtrip", "look-alike-twins")))
    codec_run.run_items("san", tw, lambda sp, r, c: judge_item(ctx, sp, r, c), batch=4)
    # codecs with free-length content, sized so that the payload hits each boundary
    more = []
    for n in (16384, 32768, 65536):
        # v1 high-res: 30 + 6k bytes; v2 overview: 27 + 3k + extra; v2 track data: 44 + extra
        more.append(("v2_track_data", "roundtrip", dict(G.v2_track_data(ctx.rng), extra=(b"e" * (n - 44)).hex()), ("roundtrip", "payload=%d" % n)))
        k = (n - 27) // 3
        v = G.v2_overview(ctx.rng)
        v["points"] = bytes((i * 3) & 255 for i in range(3 * k)).hex()
        v["extra"] = (b"x" * (n - 27 - 3 * k)).hex()
        more.append(("v2_overview", "roundtrip", v, ("roundtrip", "payload=%d" % n)))
        if (n - 30) % 6 == 0 or True:
            k = (n - 30) // 6
            if 30 + 6 * k == n:
                more.append(("v1_high_res", "roundtrip", {"spe": "4024000000000000", "waveform": bytes((i * 5) & 255 for i in range(6 * k)).hex()},
                             ("roundtrip", "payload=%d" % n)))
    for k in (8187, 16379):   # 30 + 6k is a multiple of 16384
        more.append(("v1_high_res", "roundtrip", {"spe": "4024000000000000", "waveform": bytes((i * 5) & 255 for i in range(6 * k)).hex()},
                     ("roundtrip", "payload=%d" % (30 + 6 * k))))
    codec_run.run_items("san", more, lambda sp, r, c: judge_item(ctx, sp, r, c), batch=4)


def alignment_sweep(ctx):
    """Every residue of the payload length modulo the 16 KiB working buffer, for multi-buffer streams: the payload is
    N constant bytes followed by ~60 KB of low-amplitude noise (a silent intro, then music), N = 0 .. 16383."""
    from .. import runner
    import random
    fixed = random.Random(0)   # the first tail does not depend on VERIF_SEED: with it the sweep is known to meet the coincidence
    tails = [bytes(fixed.choice(b"\x00\x01\x02\x03\x05\x08") for _ in range(60000)),
             bytes(ctx.rng.choice(b"\x00\x01\x02\x03\x05\x08") for _ in range(60000)),
             bytes((ctx.rng.randrange(16) + (i >> 8)) & 255 for i in range(40000))]
    cases = []
    span = 16384 if ctx.tier == "quick" else 49152
    per = span // 64
    for t, tail in enumerate(tails if ctx.tier != "quick" else tails[:2]):
        for j in range(64):
            cases.append({"id": "sw%d_%d" % (t, j), "no_tz": True,
                          "ops": [{"op": "set_budget", "inflate": 10 ** 9},
                                  {"op": "zlib_sweep", "tail": tail.hex(), "from": j * per, "to": (j + 1) * per, "fill": 0}]})
    events = 0
    for res in runner.run_cases(cases, cfg="plain", stall_timeout=300):
        ev = res.events
        if res.crash or len(ev) < 2 or "exc" in ev[1]:
            kind = res.crash["kind"] if res.crash else (ev[1]["exc"]["type"] if len(ev) > 1 else "incomplete")
            ctx.violation(f"crash zlib alignment-sweep {kind}", f"the alignment sweep died: {kind}", {"kind": "zlib-sweep", "ops": res.case["ops"][:1]})
            continue
        r = ev[1]["ret"]
        ctx.count(r["ok"] + len(r["failures"]))
        ctx.bump("alignment_sweep_round_trips", r["ok"] + len(r["failures"]))
        events += r["alignment_events"]
        for f in r["failures"][:3]:
            if isinstance(f, dict):
                ctx.violation("zlib-container-roundtrip-fails alignment-sweep " + f["what"].split(":")[0][:60],
                              f"compress/uncompress of {f['N']} zero bytes + {len(bytes.fromhex(res.case['ops'][1]['tail']))} noisy bytes: {f['what']}",
                              {"kind": "zlib-sweep", "N": f["N"], "tail": res.case["ops"][1]["tail"]})
    ctx.extra["alignment_sweep_buffer_boundary_coincidences"] = events
    if ctx.extra.get("alignment_sweep_round_trips", 0) < span * (2 if ctx.tier == "quick" else 3):
        ctx.fail_harness("the alignment sweep did not complete")
    # (how often the coincidence "input exhausted exactly as the output buffer fills" was met is in the evidence; about
    # once per 16384 lengths is expected, so a sweep can also meet none - that is recorded, not judged)


def concurrent_stage(ctx):
    """Four threads decode and re-encode their own lists of valid blobs (of all eleven kinds, some spanning several
    working buffers) at the same time, on the race-detector build.  Each thread's bytes must equal what a single thread
    produces for the same blobs; ThreadSanitizer reports any state the codecs share."""
    from .. import runner, engine_codec as EC
    ncase = 3 if ctx.tier == "quick" else 30
    cases = []
    for k in range(ncase):
        lists = []
        for t in range(4):
            lst = []
            while len(lst) < 40:
                kind = ctx.rng.choice(KINDS)
                try:
                    v = G.ENCODABLE[kind](ctx.rng, len(lst) % 10 == 3) if kind in ("v2_beat_data", "v2_overview", "v1_beat_data", "v1_high_res", "v1_overview") else G.ENCODABLE[kind](ctx.rng)
                    blob = EC.ENC[kind](v)
                except Exception:  # noqa: BLE001
                    continue
                lst.append({"kind": kind, "blob": blob.hex()})
            lists.append(lst)
        flat = [[it] for lst in lists for it in lst]
        cases.append({"id": "mtc%d" % k, "no_tz": True, "_n": [len(x) for x in lists],
                      "ops": [{"op": "mt_codec", "rounds": 1, "lists": [[it for lst in lists for it in lst]]},
                              {"op": "mt_codec", "rounds": 5, "lists": lists}]})

    def on_result(res):
        wit = {"kind": "concurrent", "threads": 4}
        if res.crash:
            ctx.count()
            ctx.violation("concurrent-calls " + res.crash["kind"] + " at=" + res.crash["site"],
                          "decoding and re-encoding on four threads at once: " + res.crash["kind"] + " in " + res.crash["site"] + " :: " +
                          res.crash.get("stderr", "")[:600].replace("\n", " | "), dict(wit, crash=res.crash["kind"]))
            return
        e1, e2 = res.events[0], res.events[1]
        if "exc" in e1 or "exc" in e2:
            ctx.fail_harness("concurrent codec stage failed: %s" % (e1.get("exc") or e2.get("exc")))
            return
        ctx.bump("concurrent_cases")
        single = e1["ret"][0]
        pos = 0
        for n, out in zip(res.case["_n"], e2["ret"]):
            ctx.count(n)
            ctx.bump("concurrent_calls_judged", n)
            if out != single[pos:pos + n]:
                ctx.violation("concurrent-calls wrong-answer", "a blob re-encoded while other threads were using the codecs differs from the "
                              "single-threaded result", wit)
                return
            pos += n

    runner.run_cases(cases, cfg="tsan", on_result=on_result, stall_timeout=300)
    if not ctx.extra.get("concurrent_cases") and not any(k.startswith("concurrent-calls") for k in ctx.viol):
        ctx.fail_harness("the concurrent stage did not run")


def run(ctx):
    n = 400 if ctx.tier == "quick" else 12000
    specs = []
    for kind in KINDS:
        for v, cls, tag in boundary_values(kind, ctx.rng):
            specs.append((kind, "roundtrip", v, (cls, tag)))
        for i in range(n):
            big = (ctx.tier != "quick") or i % 25 == 7
            try:
                v = G.ENCODABLE[kind](ctx.rng, big) if kind in ("v2_beat_data", "v2_overview", "v1_beat_data", "v1_high_res", "v1_overview") else G.ENCODABLE[kind](ctx.rng)
            except TypeError:
                v = G.ENCODABLE[kind](ctx.rng)
            specs.append((kind, "roundtrip", v, ("roundtrip", "random")))
    for sp in specs[:3]:
        ctx.sample({"kind": sp[0], "class": sp[3][0], "value": sp[2] if len(str(sp[2])) < 1500 else str(sp[2])[:1500]})
    ctx.assumptions += ["values equal by bit pattern of every double and byte of every string",
                        "std::bad_alloc for a single allocation above 128 MiB is a legal rejection",
                        "ASan+UBSan+_GLIBCXX_ASSERTIONS build; a sanitizer report during encode/decode is a violation"]
    codec_run.run_items("san", specs, lambda sp, r, c: judge_item(ctx, sp, r, c), batch=60)
    zlib_ladder(ctx)
    alignment_sweep(ctx)
    concurrent_stage(ctx)
    if len(ctx.extra.get("by_kind", {})) != 11:
        ctx.fail_harness("not all 11 codecs were exercised")


def replay(ctx, doc):
    r = doc["replay"]
    if r.get("kind") == "zlib-sweep":
        from .. import runner
        if "N" not in r:
            alignment_sweep(ctx)
            return
        res = runner.run_one({"id": "x", "no_tz": True, "ops": [{"op": "set_budget", "inflate": 10 ** 9},
                                                             {"op": "zlib_sweep", "tail": r["tail"], "from": r["N"], "to": r["N"] + 1}]}, cfg="plain")
        ctx.count()
        f = (res.events[1].get("ret") or {}).get("failures") if len(res.events) > 1 else None
        if f:
            ctx.violation("zlib-container-roundtrip-fails alignment-sweep " + f[0]["what"].split(":")[0][:60], f[0]["what"], r)
        return
    if r.get("kind") == "concurrent":
        concurrent_stage(ctx)
        return
    if r.get("kind") == "zlib" and "value" not in r:
        zlib_ladder(ctx)
        return
    spec = (r["kind"], "roundtrip", r["value"], (r["class"], r["tag"]))
    codec_run.run_items("san", [spec], lambda sp, res, c: judge_item(ctx, sp, res, c))
