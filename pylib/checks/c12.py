"""C12 - a created library matches the reference schema of its version.

For each supported version with reference dumps, a library is created on disk and as a temporary library by the real
code; the stored schema (sqlite_master + PRAGMA table_info) is read by Python's own sqlite3 (or, for temporary
libraries, dumped with plain SELECTs) and compared, after tokenising, with every reference dump of that version
hydrated by Python.  The created schema must equal at least one reference object-for-object.  Version numbers,
verify() and recognition on load are checked as well."""
import os
import shutil
import sqlite3

from .. import runner, sqlnorm as SN
from ..framework import dir_name, ALL_SCHEMAS, is_v2, schema_tuple

LEVEL = "exploration"
RULE = ("the finite space: 18 versions x {on disk, via create_or_load, temporary} x {m.db, p.db} against all 72 reference dump files "
        "(mapped to versions by their Information row; 1.18.0 desktop vs OS by the isExternalTrack column type); every "
        "(version, storage, database file, schema object) comparison counts; distinct by that tuple")


def load_references():
    refs = {}   # (version tuple, file 'm'|'p') -> list of (label, variant, extracted)
    for d in SN.reference_dirs():
        for f in sorted(os.listdir(d)):
            if not f.endswith(".db.sql"):
                continue
            con, errs = SN.hydrate(os.path.join(d, f))
            v = SN.version_of(con)
            ex = SN.extract(con)
            variant = None
            if ("table", "track") in ex and v == (1, 18, 0):
                col = [c for c in ex[("table", "track")]["cols"] if c[1] == "isexternaltrack"]
                variant = {"numeric": "Desktop", "integer": "OS"}.get(col[0][2]) if col else None
            label = os.path.relpath(os.path.join(d, f), "/repo/testdata/ref/engine")
            refs.setdefault((v, f[0]), []).append((label, variant, ex, errs))
            con.close()
    return refs


def variant_of(schema):
    if "(Desktop)" in schema:
        return "Desktop"
    if "(OS)" in schema:
        return "OS"
    return None


def compare(ctx, schema, storage, which, created, refs, wit):
    """created: extracted schema; must equal at least one reference of this version."""
    v = schema_tuple(schema)
    cands = [r for r in refs.get((v, which), []) if r[1] in (None, variant_of(schema))]
    if not cands:
        ctx.bump_in("no_reference_for", "%s %s.db" % (schema, which))
        return
    ctx.count(len(created))
    for k in created:
        ctx.nontriv("%s|%s|%s|%s|%s" % (schema, storage, which, k[0], k[1]))
    best = None
    for label, _variant, ex, _errs in cands:
        d = SN.diff_schemas(created, ex)
        if not d:
            ctx.bump("created_equals_reference")
            ctx.bump_in("matched_reference", "%s %s.db" % (schema, which))
            # log (not judge) how the other references of the same version differ
            for l2, _v2, ex2, _e2 in cands:
                if l2 != label and SN.diff_schemas(created, ex2):
                    ctx.add_to("references_of_same_version_that_differ_among_themselves", l2)
            return
        if best is None or len(d) < len(best[1]):
            best = (label, d)
    label, d = best
    for rule, name, detail in d[:12]:
        ctx.violation(f"schema-differs {schema} {which}.db {rule} {name}",
                      f"{schema} ({storage}): {which}.db object {name}: {detail} [closest reference: {label}]", wit)


def master_from_dump(dump, dbname):
    """Extracted schema (without table_info) from a rawdump 'master' list."""
    out = {}
    from ..rawread import val
    for row in dump[dbname]["master"]:
        typ, name, tbl, sql = [val(x) for x in row]
        typ, name, tbl = typ.decode(), name.decode(), tbl.decode()
        if name.startswith("sqlite_") and typ == "table":
            continue
        out[(typ, name.lower())] = {"sql": SN.norm_sql(sql.decode() if sql is not None else None), "tbl": tbl.lower()}
    return out


def strip_cols(ex):
    return {k: {"sql": v["sql"], "tbl": v["tbl"]} for k, v in ex.items()}


def run(ctx):
    refs = load_references()
    ctx.extra["reference_files"] = sum(len(v) for v in refs.values())
    ctx.extra["reference_hydration_errors"] = sum(len(r[3]) for v in refs.values() for r in v)
    root = runner.scratch_dir("djc12_")
    try:
        cases = []
        for i, schema in enumerate(ALL_SCHEMAS):
            d = os.path.join(root, dir_name("v%d" % i, i))   # directory names with characters special to URIs / SQL / shells
            os.makedirs(d)
            cases.append({"id": "disk%d" % i, "schema": schema, "dir": d, "kind": "disk",
                          "ops": [{"op": "create", "schema": schema, "dir": d}, {"op": "verify"}, {"op": "db_query", "q": "version_name"},
                                  {"op": "release_all"}, {"op": "load", "dir": d}, {"op": "verify"}, {"op": "release_all"}]})
            # the third way to create: create_or_load_database on an empty directory (every other version with one variable
            # passed as both the requested and the reported version)
            d = os.path.join(root, dir_name("w%d" % i, i + 7))
            os.makedirs(d)
            cases.append({"id": "col%d" % i, "schema": schema, "dir": d, "kind": "col",
                          "ops": [{"op": "create_or_load", "schema": schema, "dir": d, "alias": i % 2 == 0}, {"op": "verify"}, {"op": "db_query", "q": "version_name"},
                                  {"op": "release_all"}, {"op": "load", "dir": d}, {"op": "verify"}, {"op": "release_all"}]})
            # the same place used again within one process: a library of the other generation is created there, loaded,
            # released and deleted first
            d = os.path.join(root, "reused%d" % i)
            os.makedirs(d)
            other = "1.6.0" if is_v2(schema) else "2.21.2"
            pre = [{"op": "create", "schema": other, "dir": d}, {"op": "release_all"}, {"op": "load", "dir": d}, {"op": "exists", "dir": d},
                   {"op": "release_all"}, {"op": "wipe_dir", "dir": d}, {"op": "exists", "dir": d}]
            cases.append({"id": "reuse%d" % i, "schema": schema, "dir": d, "kind": "reuse", "_off": len(pre),
                          "ops": pre + [{"op": "create", "schema": schema, "dir": d}, {"op": "verify"}, {"op": "db_query", "q": "version_name"},
                                        {"op": "release_all"}, {"op": "load", "dir": d}, {"op": "verify"}, {"op": "release_all"}]})
            if not is_v2(schema):
                # what a "reset by deleting m.db" leaves: the p.db of a library of another 1.x version.  Creating there may be
                # refused; if it succeeds the result must be a library like any other
                d = os.path.join(root, "leftover%d" % i)
                os.makedirs(d)
                other = "1.15.0" if schema != "1.15.0" else "1.6.0"
                pre = [{"op": "create", "schema": other, "dir": d}, {"op": "create_track", "as": "t0", "snap": {"relative_path": "612e6d7033"}},
                       {"op": "release_all"}, {"op": "remove_file", "path": os.path.join(d, "m.db")}]
                cases.append({"id": "leftover%d" % i, "schema": schema, "dir": d, "kind": "leftover", "_off": len(pre), "_lenient_prelude": True,
                              "ops": pre + [{"op": "create", "schema": schema, "dir": d}, {"op": "verify"}, {"op": "db_query", "q": "version_name"},
                                            {"op": "release_all"}, {"op": "load", "dir": d}, {"op": "verify"}, {"op": "release_all"}]})
            if is_v2(schema):
                # a Database2 folder in which Engine DJ has already left its sibling databases (history hm.db, streaming stm.db,
                # iTunes itm.db - each with an Information row of its own, here of another 2.x version) but no m.db yet
                d = os.path.join(root, "sibling%d" % i)
                os.makedirs(d)
                other = "2.18.0" if schema != "2.18.0" else "2.21.2"
                m = os.path.join(d, "Database2", "m.db")
                pre = [{"op": "create", "schema": other, "dir": d}, {"op": "create_track", "as": "t0", "snap": {"relative_path": "612e6d7033"}},
                       {"op": "release_all"}] + [{"op": "copy_file", "from": m, "to": os.path.join(d, "Database2", n)} for n in ("hm.db", "stm.db", "itm.db")] + \
                      [{"op": "remove_file", "path": m}]
                cases.append({"id": "sibling%d" % i, "schema": schema, "dir": d, "kind": "leftover", "_off": len(pre), "_lenient_prelude": True, "_sibling": True,
                              "ops": pre + [{"op": "create", "schema": schema, "dir": d}, {"op": "verify"}, {"op": "db_query", "q": "version_name"},
                                            {"op": "release_all"}, {"op": "load", "dir": d}, {"op": "verify"}, {"op": "release_all"}]})
            cases.append({"id": "temp%d" % i, "schema": schema, "kind": "temp",
                          "ops": [{"op": "create_temporary", "schema": schema}, {"op": "verify"}, {"op": "db_query", "q": "version_name"},
                                  {"op": "rawdump", "checks": False},
                                  {"op": "raw_exec", "sql": "SELECT schemaVersionMajor, schemaVersionMinor, schemaVersionPatch FROM Information"},
                                  {"op": "raw_exec", "sql": "SELECT schemaVersionMajor, schemaVersionMinor, schemaVersionPatch FROM "
                                   + ("main" if schema.startswith("2.") else "perfdata") + ".Information"}]})
        results = {}
        runner.run_cases(cases, cfg="plain", on_result=lambda r: results.__setitem__(r.case["id"], r))
        for c in cases:
            r = results.get(c["id"])
            schema = c["schema"]
            wit = {"schema": schema, "ops": c["ops"]}
            ctx.bump_in("cases_by_schema", schema)
            if r is None or r.crash or len(r.events) < len(c["ops"]):
                ctx.violation(f"creation-did-not-complete {schema} {c['kind']}", f"{schema}: create/verify/load sequence did not complete", wit)
                continue
            ev = r.events
            off = c.get("_off", 0)
            if off and c.get("_lenient_prelude"):
                if any("exc" in e for e in ev[:off]) or ev[off - 1].get("ret") is not True:
                    ctx.fail_harness("leftover-file set-up failed")
                    return
                ev = ev[off:]
                c = dict(c, ops=c["ops"][off:])
                if "exc" in ev[0]:
                    ctx.bump("creation_refused_next_to_leftover_files")
                    ctx.count()
                    continue
                ctx.bump("creation_accepted_next_to_engine_sibling_databases" if c.get("_sibling") else "creation_accepted_next_to_leftover_files")
            elif off:
                if any("exc" in e for e in ev[:off]) or ev[off - 1].get("ret") is not False:
                    ctx.violation(f"reused-directory-prelude {schema}", f"{schema}: creating, loading and deleting a library of the other generation "
                                  f"in the same place did not go as expected: {[e.get('ret', e.get('exc', {}).get('type')) for e in ev[:off]]}", wit)
                    continue
                ctx.bump("directories_reused_within_one_process")
                ev = ev[off:]
                c = dict(c, ops=c["ops"][off:])
            for k, e in enumerate(ev):
                if "exc" in e:
                    what = bytes.fromhex(e["exc"].get("what", "")).decode(errors="replace")[:140]
                    ctx.violation(f"{c['ops'][k]['op']}-throws {schema} {c['kind']}",
                                  f"{schema} ({c['kind']}): {c['ops'][k]['op']} on a freshly created library throws {e['exc']['type']}: {what}", wit)
            if any("exc" in e for e in ev):
                continue
            if ev[2]["ret"] != schema:
                ctx.violation(f"version-name-wrong {schema}", f"{schema}: version_name() = {ev[2]['ret']!r}", wit)
            v2 = is_v2(schema)
            want_ver = schema_tuple(schema)
            if c["kind"] == "col" and (ev[0]["ret"].get("created") is not True):
                ctx.violation(f"create-or-load-did-not-create {schema}", f"{schema}: create_or_load_database on an empty directory reports {ev[0]['ret']}", wit)
            if c["kind"] in ("disk", "col", "reuse", "leftover"):
                if ev[4]["ret"]["loaded_schema"] != schema or ev[4]["ret"]["version_name"] != schema:
                    ctx.violation(f"not-recognised-on-load {schema}", f"{schema}: loading the created library reports {ev[4]['ret']}", wit)
                files = {"m": os.path.join(c["dir"], "Database2", "m.db") if v2 else os.path.join(c["dir"], "m.db")}
                if not v2:
                    files["p"] = os.path.join(c["dir"], "p.db")
                for which, path in files.items():
                    if not os.path.exists(path):
                        ctx.violation(f"file-missing {schema} {which}.db", f"{schema}: {path} was not created", wit)
                        continue
                    con = sqlite3.connect(path)
                    try:
                        ver = SN.version_of(con)
                        if ver != want_ver:
                            ctx.violation(f"stored-version-wrong {schema} {which}.db", f"{schema}: {which}.db stores version {ver}", wit)
                        compare(ctx, schema, {"disk": "disk", "col": "create_or_load", "reuse": "reused directory", "leftover": "next to a leftover p.db"}[c["kind"]], which, SN.extract(con), refs, wit)
                    finally:
                        con.close()
            else:
                dump = ev[3]["ret"]
                row = ev[4]["ret"]["rows"][0]
                if tuple(row) != want_ver:
                    ctx.violation(f"stored-version-wrong {schema} temporary", f"{schema}: temporary library stores version {row}", wit)
                row2 = ev[5]["ret"]["rows"][0]
                if tuple(row2) != want_ver:
                    ctx.violation(f"stored-version-wrong {schema} temporary-second-database", f"{schema}: temporary library stores version {row2} in its performance database", wit)
                if v2:
                    created = {"m": master_from_dump(dump, "main")}
                else:
                    created = {"m": master_from_dump(dump, "music"), "p": master_from_dump(dump, "perfdata")}
                slim = {k: [(l, va, strip_cols(ex), er) for l, va, ex, er in v] for k, v in refs.items()}
                for which, ex in created.items():
                    compare(ctx, schema, "temporary", which, ex, slim, wit)
    finally:
        shutil.rmtree(root, ignore_errors=True)
    ctx.exhaustive = True
    ctx.sample({"reference_files": ctx.extra["reference_files"], "versions_with_reference": sorted({str(k[0]) for k in refs})})
    ctx.assumptions += ["'modulo whitespace and identifier quoting' = equality of token streams (quoting stripped, identifiers and "
                        "keywords case-folded, string literals verbatim)", "a created schema must equal at least one reference dump of its "
                        "version; dumps of one version that differ among themselves are logged",
                        "1.6.0 has no reference dump and is only checked for version numbers, verify() and load"]
    if set(ctx.extra.get("cases_by_schema", {})) != set(ALL_SCHEMAS):
        ctx.fail_harness("not all versions were created")
    if ctx.extra.get("created_equals_reference", 0) < 30:
        ctx.fail_harness("too few schema comparisons succeeded to call this an observation")


def replay(ctx, doc):
    run(ctx)
