"""C13 - schema and layout detection is exact.

Template libraries are created by the real code; Python copies them and rewrites the stored version triple to every
point of the box major 0..4 x minor 0..23 x patch 0..4; the real load_database() then identifies or refuses each copy.
The decision table is written from the list of supported (major, minor, patch) triples, not from schema.cpp."""
import os
import shutil
import sqlite3

from .. import runner
from ..framework import ALL_SCHEMAS, DIR_NAME_POOL, dir_name, schema_tuple

LEVEL = "exploration"
RULE = ("every version triple of the box 0..4 x 0..23 x 0..4 (600 triples) written into copies of five template libraries "
        "(1.6.0, 1.18.0 desktop, 1.18.0 OS in the legacy layout; 2.18.0, 2.21.2 in the Database2 layout), plus the "
        "directory cases (missing, empty, both layouts, legacy only, Database2 only); every (template, triple) load "
        "counts; the space is finite and enumerated completely")

TEMPLATES = ["1.6.0", "1.18.0 (Desktop)", "1.18.0 (OS)", "2.18.0", "2.21.2"]
SUPPORTED = {}
for s in ALL_SCHEMAS:
    SUPPORTED.setdefault(schema_tuple(s), []).append(s)


def set_version(path, triple):
    con = sqlite3.connect(path)
    con.execute("UPDATE Information SET schemaVersionMajor = ?, schemaVersionMinor = ?, schemaVersionPatch = ?", triple)
    con.commit()
    con.close()


def set_version_wal(path, triple):
    """The same change made in write-ahead-log mode and left UN-CHECKPOINTED: the database file still holds the old triple, the
    new one is in the -wal file next to it (Engine DJ running, or killed, or a folder copied together with its -wal file).  The
    stored database state is the new triple.  Done by changing a scratch copy and copying file and -wal back while the writing
    connection is still open (closing it would checkpoint)."""
    work = path + ".walwork"
    shutil.copy(path, work)
    con = sqlite3.connect(work)
    try:
        con.execute("PRAGMA journal_mode = WAL")
        con.execute("PRAGMA wal_autocheckpoint = 0")
        con.execute("UPDATE Information SET schemaVersionMajor = ?, schemaVersionMinor = ?, schemaVersionPatch = ?", triple)
        con.commit()
        shutil.copy(work, path)
        shutil.copy(work + "-wal", path + "-wal")
    finally:
        con.close()
    for suf in ("", "-wal", "-shm"):
        if os.path.exists(work + suf):
            os.remove(work + suf)


def marker_of(template_dir):
    con = sqlite3.connect(os.path.join(template_dir, "m.db"))
    try:
        for row in con.execute("PRAGMA table_info('Track')"):
            if row[1] == "isExternalTrack":
                return "Desktop" if (row[2] or "").upper() == "NUMERIC" else "OS"
    finally:
        con.close()
    return None


def run(ctx):
    root = runner.scratch_dir("djc13_")
    try:
        # phase 1: templates
        tdirs = {}
        cases = []
        for i, s in enumerate(TEMPLATES):
            d = os.path.join(root, "tmpl%d" % i)
            os.makedirs(d)
            tdirs[s] = d
            cases.append({"id": "t%d" % i, "ops": [{"op": "create", "schema": s, "dir": d},
                                                   {"op": "create_track", "as": "t0", "snap": {"relative_path": "612e6d7033"}},
                                                   {"op": "release_all"}]})
        res = runner.run_cases(cases, cfg="plain")
        if any(r.crash or any("exc" in e for e in r.events) for r in res):
            ctx.fail_harness("could not create the template libraries")
            return
        # phase 2: copies with rewritten versions
        box = [(a, b, c) for a in range(0, 5) for b in range(0, 24) for c in range(0, 5)]
        # outside the box: negative components and components that would wrap into a supported triple if the
        # stored 64-bit integers were narrowed to 32 (or 16, or 8) bits
        W = 2 ** 32
        box += [(1, 18, 5), (2, 22, 0), (2, 19, 0), (1, 24, 0), (5, 0, 0), (-1, 6, 0), (1, -6, 0), (1, 6, -1), (2 ** 31, 0, 0), (1, 6, 2 ** 31),
                (W + 1, 6, 0), (1, W + 6, 0), (1, 6, W), (W + 2, 21, 2), (2, W + 21, 2), (2, 21, W + 2), (2 ** 63 - 1, 0, 0), (-2 ** 63, 6, 0),
                (65537, 6, 0), (1, 65542, 0), (257, 6, 0), (1, 262, 0), (1, 6, 256)]
        # sign-flipped components of every supported triple
        for (a, b, c) in list(SUPPORTED):
            for t in ((-a, b, c), (a, -b, c), (a, b, -c)):
                if t not in box and t not in SUPPORTED:
                    box.append(t)
        # components that collide with a supported triple if major/minor/patch were folded into one number in some
        # radix (minor * R + patch, major * R + minor, ...): 2.20.102 ~ 2.21.2 for R = 100, 1.5.266 ~ 1.6.10 for R = 256, ...
        for (a, b, c) in list(SUPPORTED):
            for R in (10, 16, 32, 64, 100, 128, 256, 1000, 1024, 4096, 10000, 65536):
                for t in ((a, b - 1, c + R), (a, b + 1, c - R), (a - 1, b + R, c), (a + 1, b - R, c), (a - 1, b, c + R * R), (a, b - 2, c + 2 * R),
                          (a - 1, b + R - 1, c + R)):
                    if t not in SUPPORTED and t not in box:
                        box.append(t)
        ctx.extra["triples_outside_the_box"] = len(box) - 600
        loads = []
        meta = {}
        n = 0
        for s in TEMPLATES:
            v2 = s.startswith("2.")
            marker = None if v2 else marker_of(tdirs[s])
            for t in box:
                d = os.path.join(root, "c%d" % n)
                shutil.copytree(tdirs[s], d)
                if v2:
                    set_version(os.path.join(d, "Database2", "m.db"), t)
                else:
                    set_version(os.path.join(d, "m.db"), t)
                    set_version(os.path.join(d, "p.db"), t)
                cid = "l%d" % n
                meta[cid] = (s, t, marker, v2)
                loads.append({"id": cid, "ops": [{"op": "load", "dir": d}, {"op": "release_all"}]})
                n += 1
        # the same decision for libraries in write-ahead-log mode whose latest version change is still in the -wal file: every
        # supported triple and a sample of the others, on every template
        wal_triples = sorted(SUPPORTED) + ctx.rng.sample([t for t in box if t not in SUPPORTED and all(-2 ** 62 < x < 2 ** 62 for x in t)], 30)
        for s in TEMPLATES:
            v2 = s.startswith("2.")
            marker = None if v2 else marker_of(tdirs[s])
            for t in wal_triples:
                d = os.path.join(root, "c%d" % n)
                shutil.copytree(tdirs[s], d)
                if v2:
                    set_version_wal(os.path.join(d, "Database2", "m.db"), t)
                else:
                    set_version_wal(os.path.join(d, "m.db"), t)
                    set_version_wal(os.path.join(d, "p.db"), t)
                cid = "l%d" % n
                meta[cid] = (s, t, marker, v2)
                loads.append({"id": cid, "ops": [{"op": "load", "dir": d}, {"op": "release_all"}]})
                n += 1
                ctx.bump("libraries_whose_version_change_is_still_in_the_wal_file")
        # directory cases
        dcases = {}
        d_missing = os.path.join(root, "does-not-exist")
        d_empty = os.path.join(root, "empty")
        os.makedirs(d_empty)
        d_both = os.path.join(root, "both")
        shutil.copytree(tdirs["1.6.0"], d_both)
        shutil.copytree(os.path.join(tdirs["2.21.2"], "Database2"), os.path.join(d_both, "Database2"))
        d_other = os.path.join(root, "otherfiles")
        os.makedirs(d_other)
        open(os.path.join(d_other, "readme.txt"), "w").write("x")
        d_ponly = os.path.join(root, "ponly")
        os.makedirs(d_ponly)
        shutil.copy(os.path.join(tdirs["1.6.0"], "p.db"), os.path.join(d_ponly, "p.db"))
        d_emptydb2 = os.path.join(root, "emptydb2")
        os.makedirs(os.path.join(d_emptydb2, "Database2"))
        d_db2other = os.path.join(root, "db2other")
        os.makedirs(os.path.join(d_db2other, "Database2"))
        open(os.path.join(d_db2other, "Database2", "hm.db"), "w").write("")
        for name, d in (("missing-directory", d_missing), ("empty-directory", d_empty), ("both-layouts", d_both),
                        ("unrelated-files-only", d_other), ("p.db-only", d_ponly), ("empty-Database2-subdirectory", d_emptydb2),
                        ("Database2-without-m.db", d_db2other), ("empty-directory-trailing-slash", d_empty + "/"),
                        ("both-layouts-trailing-slash", d_both + "/")):
            cid = "dir-" + name
            dcases[cid] = name
            loads.append({"id": cid, "ops": [{"op": "load", "dir": d}, {"op": "exists", "dir": d}]})
        # the two files of a legacy library disagreeing: identification is by the music database (m.db)
        disagree = {}
        k = 0
        for s_ in ("1.6.0", "1.18.0 (OS)"):
            for mt, pt in (((1, 7, 1), None), ((9, 9, 9), None), (None, (9, 9, 9)), (None, (1, 7, 1)), ((1, 13, 2), (1, 6, 0)), ((1, 6, 3), (1, 6, 0))):
                d = os.path.join(root, "dis%d" % k)
                shutil.copytree(tdirs[s_], d)
                if mt:
                    set_version(os.path.join(d, "m.db"), mt)
                if pt:
                    set_version(os.path.join(d, "p.db"), pt)
                cid = "dis%d" % k
                disagree[cid] = (s_, mt or schema_tuple(s_), pt, marker_of(tdirs[s_]))
                loads.append({"id": cid, "ops": [{"op": "load", "dir": d}, {"op": "release_all"}]})
                k += 1
        # a library of one layout next to stray pieces of the other layout is still that library
        mixed = {}
        for s_, extra in (("1.6.0", "empty-Database2-dir"), ("1.18.0 (OS)", "Database2-dir-with-other-file"), ("2.21.2", "stray-p.db"),
                          ("2.18.0", "stray-unrelated-file")):
            d = os.path.join(root, "mixed-" + extra)
            shutil.copytree(tdirs[s_], d)
            if extra == "empty-Database2-dir":
                os.makedirs(os.path.join(d, "Database2"))
            elif extra == "Database2-dir-with-other-file":
                os.makedirs(os.path.join(d, "Database2"))
                open(os.path.join(d, "Database2", "hm.db"), "w").write("x")
            elif extra == "stray-p.db":
                shutil.copy(os.path.join(tdirs["1.6.0"], "p.db"), os.path.join(d, "p.db"))
            else:
                open(os.path.join(d, "readme.txt"), "w").write("x")
            cid = "mixed-" + extra
            mixed[cid] = (s_, extra)
            loads.append({"id": cid, "ops": [{"op": "load", "dir": d}, {"op": "exists", "dir": d}, {"op": "release_all"}]})
        slash = {}
        for s_ in TEMPLATES:
            cid = "slash-" + s_
            slash[cid] = s_
            loads.append({"id": cid, "ops": [{"op": "load", "dir": tdirs[s_] + "/"}, {"op": "exists", "dir": tdirs[s_] + "/"}, {"op": "release_all"}]})
        # the same libraries named by other spellings of their path: relative to the working directory, with "." and
        # ".." components, with doubled slashes
        for j, s_ in enumerate(TEMPLATES):
            t = tdirs[s_]
            for k, d in enumerate((os.path.relpath(t), os.path.join(os.path.dirname(t), ".", os.path.basename(t)),
                                   os.path.join(t, "..", os.path.basename(t)), t.replace("/", "//", 2), os.path.relpath(t) + "/")):
                cid = "named-%d-spelling%d" % (j, k)
                slash[cid] = s_
                loads.append({"id": cid, "ops": [{"op": "load", "dir": d}, {"op": "exists", "dir": d}, {"op": "release_all"}]})
            # ... reached through symbolic links: the directory itself is a link; the directory is real and the
            # database files (1.x) or the Database2 folder (2.x) are links to where the library really lives
            ln = os.path.join(root, "link-to-%d" % j)
            os.symlink(t, ln)
            ln2 = os.path.join(root, "dir-of-links-%d" % j)
            os.makedirs(ln2)
            for name in os.listdir(t):
                os.symlink(os.path.join(t, name), os.path.join(ln2, name))
            for k, d in enumerate((ln, ln + "/", ln2), start=5):
                cid = "named-%d-spelling%d" % (j, k)
                slash[cid] = s_
                loads.append({"id": cid, "ops": [{"op": "load", "dir": d}, {"op": "exists", "dir": d}, {"op": "release_all"}]})
        # the same libraries under directory names with characters special to URIs, SQL or shells
        for j, s_ in enumerate(TEMPLATES):
            for k in range(1, len(DIR_NAME_POOL)):
                if (k + j) % 2:
                    continue
                d = os.path.join(root, dir_name("named%d_%d" % (j, k), k))
                os.makedirs(os.path.dirname(d), exist_ok=True)
                shutil.copytree(tdirs[s_], d)
                cid = "named-%d-%d" % (j, k)
                slash[cid] = s_
                loads.append({"id": cid, "ops": [{"op": "load", "dir": d}, {"op": "exists", "dir": d}, {"op": "release_all"}]})
        results = {}
        runner.run_cases(loads, cfg="plain", on_result=lambda r: results.__setitem__(r.case["id"], r))
        for cid, (s_, mt, pt, marker) in disagree.items():
            r = results.pop(cid)
            ctx.count()
            ctx.bump("disagreeing_file_cases")
            ev = r.events
            wit = {"ops": r.case["ops"], "template": s_, "m.db": list(mt), "p.db": list(pt) if pt else None}
            if r.crash or not ev:
                ctx.violation("load-did-not-complete disagreeing-files", "loading a library whose two files disagree did not complete", wit)
                continue
            sup = SUPPORTED.get(tuple(mt))
            if "exc" in ev[0]:
                if sup is None and "unsupported_database" not in ev[0]["exc"].get("is", []):
                    ctx.violation("unsupported-wrong-exception disagreeing-files", f"m.db says {mt}: refused with {ev[0]['exc']['type']}", wit)
                continue
            got = ev[0]["ret"]["version_name"]
            want = ("1.18.0 (%s)" % marker) if tuple(mt) == (1, 18, 0) else (sup[0] if sup else None)
            if want is None or got != want or ev[0]["ret"]["loaded_schema"] != want:
                ctx.violation(f"misidentified disagreeing-files m={'.'.join(map(str, mt))}",
                              f"m.db says {mt}, p.db says {pt}: loaded as {got}", wit)
        for cid, (s_, extra) in mixed.items():
            r = results.pop(cid)
            ctx.count()
            ctx.bump_in("directory_cases", "library-plus-" + extra)
            ev = r.events
            if r.crash or not ev or "exc" in ev[0] or ev[0]["ret"]["version_name"] != s_ or ev[0]["ret"]["loaded_schema"] != s_:
                got = (ev[0].get("ret") or ev[0].get("exc", {}).get("type")) if ev else None
                ctx.violation(f"library-with-stray-files-not-loaded {extra}", f"a {s_} library next to {extra} loads as {got}", {"ops": r.case["ops"]})
            elif ev[1].get("ret") is not True:
                ctx.violation(f"library-with-stray-files-exists-false {extra}", f"database_exists() is false for a {s_} library next to {extra}", {"ops": r.case["ops"]})
        for cid, s_ in slash.items():
            r = results.pop(cid)
            ctx.count()
            ev = r.events
            named = cid.startswith("named-")
            if named:
                ctx.bump("specially_named_directories")
            if r.crash or not ev or "exc" in ev[0] or ev[0]["ret"]["version_name"] != s_ or ev[0]["ret"]["loaded_schema"] != s_:
                shape = ""
                if named:
                    tail = cid.split("-")[2]
                    shape = tail if tail.startswith("spelling") else DIR_NAME_POOL[int(tail)].format("NAME")[:20]
                ctx.violation(f"specially-named-directory-misidentified {shape}" if named else f"trailing-slash-path-misidentified {s_}",
                              f"loading {s_} through a path {'named ' + shape if named else 'with a trailing slash'} gives "
                              f"{ev[0].get('ret') if ev else None}{ev[0].get('exc', {}).get('type') if ev and 'exc' in ev[0] else ''}", {"ops": r.case["ops"]})
            elif ev[1].get("ret") is not True:
                ctx.violation(f"trailing-slash-exists-false {s_}", "database_exists() is false for a library named with a trailing slash", {"ops": r.case["ops"]})
        for cid, r in results.items():
            ev = r.events
            wit = {"case": cid, "ops": r.case["ops"]}
            if cid in dcases:
                name = dcases[cid]
                ctx.count()
                ctx.nontriv("dir|" + name)
                ctx.bump_in("directory_cases", name)
                if r.crash or not ev:
                    ctx.violation(f"load-did-not-complete {name}", f"load_database on a {name} did not complete", wit)
                    continue
                e = ev[0]
                if "exc" not in e or "database_not_found" not in e["exc"].get("is", []):
                    got = e["exc"]["type"] if "exc" in e else "loaded as " + str(e.get("ret"))
                    ctx.violation(f"directory-not-refused-with-database_not_found {name}", f"load_database on a {name}: {got}", wit)
                if len(ev) > 1 and ev[1].get("ret") is not False:
                    ctx.violation(f"exists-true {name}", f"database_exists() is not false for a {name}", wit)
                continue
            s, t, marker, v2 = meta[cid]
            wit.update({"template": s, "triple": list(t)})
            ctx.count()
            ctx.nontriv("%s|%s" % (s, t))
            fam = "Database2" if v2 else "legacy"
            if r.crash or not ev:
                ctx.violation(f"load-did-not-complete {fam} {t}", f"loading {s} rewritten to {t} did not complete: {r.crash and r.crash['kind']}", wit)
                continue
            e = ev[0]
            loaded = None
            exc = None
            if "exc" in e:
                exc = e["exc"]
            else:
                loaded = (e["ret"]["loaded_schema"], e["ret"]["version_name"])
            sup = SUPPORTED.get(t)
            tkey = "%d.%d.%d" % t
            if sup:
                # the name this triple must map to
                if t == (1, 18, 0):
                    want = "1.18.0 (%s)" % (marker or "OS")
                else:
                    want = sup[0]
                same_layout = want.startswith("2.") == v2
                ctx.bump_in("supported_triples", fam + (":same-layout" if same_layout else ":other-layout"))
                if loaded:
                    if loaded[0] != want or loaded[1] != want:
                        ctx.violation(f"misidentified {fam} {tkey}", f"{s} rewritten to {tkey} loads as {loaded}, expected {want}", wit)
                elif same_layout:
                    ctx.violation(f"supported-refused {fam} {tkey}", f"{s} rewritten to the supported version {tkey} is refused with {exc['type']}", wit)
                # a supported triple stored in the other layout may load as itself or be refused
            elif t == (3, 0, 0):
                ctx.bump("triple_3_0_0")
                if loaded and (not loaded[1].startswith("3.0.0")):
                    ctx.violation(f"misidentified {fam} 3.0.0", f"{s} rewritten to 3.0.0 loads as {loaded}", wit)
            else:
                ctx.bump_in("unsupported_triples", fam)
                if loaded:
                    ctx.violation(f"unsupported-accepted {fam} {tkey}", f"{s} rewritten to the unsupported version {tkey} loads as {loaded}", wit)
                elif "unsupported_database" not in exc.get("is", []):
                    ctx.violation(f"unsupported-wrong-exception {fam} {tkey}", f"{s} rewritten to {tkey} is refused with {exc['type']} instead of unsupported_database", wit)
    finally:
        shutil.rmtree(root, ignore_errors=True)
    ctx.exhaustive = True
    ctx.sample({"templates": TEMPLATES, "box": "major 0..4 x minor 0..23 x patch 0..4", "supported": sorted("%d.%d.%d" % k for k in SUPPORTED)})
    ctx.assumptions += ["(3,0,0) may load as 3.0.0 or be refused (the repository's own reference test loads the 4.1.0 dump, whose stored "
                        "version is 3.0.0), never as anything else", "a supported triple stored in the other directory layout may load as "
                        "itself or be refused, never as a different schema",
                        "identification is read from loaded_schema and version_name()"]
    if ctx.evaluations < 3000:
        ctx.fail_harness("the box was not enumerated completely")


def replay(ctx, doc):
    run(ctx)
