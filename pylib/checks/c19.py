"""C19 - recommended waveform extents cover the track exactly.

Oracle: exact integer arithmetic in Python over (count, rate) points; the
doubles the library returns are compared bit-for-bit with the correctly
rounded expectation."""
import math
import struct

from .. import runner
from ..framework import case_hash

LEVEL = "exploration"
RULE = ("points (sample_count, sample_rate) with count in [0,2^62], rate any double (mostly in [0,2^31], plus negative, NaN, infinite and huge rates); "
        "generated from a boundary lattice (counts k*q-1,k*q,k*q+1 and powers of two; rates 210*m-eps,210*m,210*m+eps "
        "and the usual audio rates) plus log-uniform random points; a point is non-trivial when its quantisation "
        "number q>0 and count>0 (so both extents are non-empty); distinct by (count, rate bits)")


def dbits(x):
    return struct.pack(">d", x).hex()


def undbits(h):
    return struct.unpack(">d", bytes.fromhex(h))[0]


def quant(rate):
    # the quantisation number, recomputed from the definition; a rate that is negative, NaN or below 210 is
    # too low to quantise, and a rate beyond the 64-bit range counts as the largest representable one
    if rate != rate or rate <= 0:
        return 0
    r = 2 ** 63 - 1 if rate >= 2.0 ** 63 else int(rate)
    return (r // 210) * 2


def expect(count, rate):
    q = quant(rate)
    if count == 0 or q == 0:
        return (0, 0.0, 0, 0.0, q)
    hsize = -(-count // q)
    rounded = (count // q) * q
    ospe = rounded / 1024  # int/int true division: correctly rounded
    return (hsize, float(q), 1024, ospe, q)


RATES_ODD = [-0.0, -1.0, -209.0, -210.0, -420.5, -44100.0, -1e300, float("-inf"), float("nan"), float("inf"), 1e300, 2.0 ** 63,
             2.0 ** 62, 9.3e18, 2.0 ** 31 + 1, 2.0 ** 40]
RATES_FIXED = [0.0, 0.5, 1.0, 104.9, 209.0, 209.99, 210.0, 210.01, 419.0, 419.99, 420.0, 421.0, 629.9, 630.0,
               8000.0, 11025.0, 22050.0, 32000.0, 44099.999, 44100.0, 44100.5, 48000.0, 88200.0, 96000.0,
               176400.0, 192000.0, 384000.0, 1e6, 2.0 ** 31 - 1, 2.0 ** 31, 2.0 ** 31 - 0.5, 5e-324, 1e-300]


def gen_points(rng, n):
    pts = []
    rates = list(RATES_FIXED) + list(RATES_ODD)
    for _ in range(40):
        m = rng.choice([1, 2, 3, 5, 10, 100, 210, 1000, rng.randrange(1, 10000000)])
        base = 210.0 * m
        if base <= 2.0 ** 31:
            for eps in (0.0, -1e-9 * base, 1e-9 * base, -1.0, 1.0, -0.5, 0.5):
                r = base + eps
                if 0 <= r <= 2.0 ** 31:
                    rates.append(r)
                    if eps == 0.0:
                        rates.append(-r)
            # the closest doubles on either side of the threshold, and a ladder of small absolute distances from it
            # (a rate derived by division, such as 13230000 / 300.00000000000006, lands there)
            rates += [math.nextafter(base, 0.0), math.nextafter(base, math.inf), math.nextafter(math.nextafter(base, 0.0), 0.0)]
            for d in (1e-12, 1e-10, 1e-8, 1e-7, 9e-7, 1e-6, 1.1e-6, 1e-5, 1e-4, 1e-3, 1e-2):
                rates += [base - d, base + d]
    # likewise around whole numbers of Hz that are not thresholds (the rate is truncated to whole Hz first)
    for _ in range(20):
        k = float(rng.choice([211, 419, 44100, 44101, 48000, 22051, rng.randrange(211, 400000)]))
        rates += [math.nextafter(k, 0.0), math.nextafter(k, math.inf), k - 1e-7, k + 1e-7]

    # boundary lattice
    for r in rates:
        q = quant(r)
        counts = {0, 1, 2, 1023, 1024, 1025, 2 ** 31, 2 ** 32, 2 ** 32 + 1, 2 ** 53 - 1, 2 ** 53, 2 ** 53 + 1,
                  2 ** 62 - 1, 2 ** 62}
        if q > 0:
            for k in (1, 2, 3, 1023, 1024, 1025, rng.randrange(1, 1 << 20), rng.randrange(1, 1 << 40),
                      2 ** 15, 2 ** 16, 2 ** 31 - 1, 2 ** 31, 2 ** 32, 2 ** 32 + 1, (2 ** 31) // q + 1, (2 ** 32) // q + 1,
                      (2 ** 53) // q, (2 ** 62) // q):
                for d in (-1, 0, 1):
                    c = k * q + d
                    if 0 <= c <= 2 ** 62:
                        counts.add(c)
            counts.update({q - 1, q, q + 1})
        for c in counts:
            if 0 <= c <= 2 ** 62:
                pts.append((c, r))
    # alias runs: an argument followed at once by the arguments that a narrowing conversion (to 32, 31, 24 or 16 bits, to
    # float) would confuse with it - whatever state an implementation keeps between calls (a memo, a table) is then
    # asked about the look-alike of what it saw last.  The functions accept any double; nothing here is out of range.
    for _ in range(max(4, n // 20000)):
        r0 = float(rng.choice([44100, 48000, 96000, 22050, 88200, 209, 210, 420, 0, 1, rng.randrange(0, 400000)]))
        c0 = rng.choice([0, 1, 1000, 44100 * 200, rng.randrange(0, 10 ** 9)])
        for step in (2.0 ** 32, 2.0 ** 33, 2.0 ** 31, 2.0 ** 24, 2.0 ** 16, 2.0 ** 32 * rng.randrange(2, 1000), 2.0 ** 48):
            for c in (c0, c0 + 2 ** 32, c0 + 2 ** 31, c0 + 2 ** 53):
                pts += [(c0, r0), (c, r0 + step), (c0, r0), (c, step - r0) if step > r0 else (c, r0)]
        big = float(2 ** 24 + rng.randrange(1, 1000) * 2 + 1)     # not representable as a float
        pts += [(c0, big - 1.0), (c0, big), (c0, big + 1.0)]
    # monotonicity runs: consecutive counts
    for _ in range(max(1, n // 4000)):
        r = rng.choice(rates) if rng.random() < 0.7 else rng.uniform(0, 400000)
        q = max(quant(r), 1)
        c0 = rng.randrange(0, 50) * q + rng.randrange(-3, 3)
        c0 = max(0, c0)
        for c in range(c0, c0 + 60):
            pts.append((c, r))
    # random
    while len(pts) < n:
        mode = rng.random()
        if mode < 0.4:
            r = rng.choice(RATES_FIXED)
        elif mode < 0.7:
            r = rng.uniform(0, 200000)
        else:
            r = min(2.0 ** 31, 2.0 ** rng.uniform(-5, 31))
        if rng.random() < 0.5:
            c = rng.randrange(0, 2 ** rng.randrange(1, 63))
        else:
            c = rng.randrange(0, 500000000)
        pts.append((min(c, 2 ** 62), r))
    return pts[:max(n, len(pts))]


def judge_batch(ctx, pts, results):
    prev = None
    for (c, r), res in zip(pts, results):
        hsize, hspe_h, osize, ospe_h = res
        hspe = undbits(hspe_h)
        ospe = undbits(ospe_h)
        ehs, ehspe, eos, eospe, q = expect(c, r)
        ctx.count()
        nontriv = q > 0 and c > 0
        if nontriv:
            ctx.nontriv("%d:%s" % (c, dbits(r)))
        cls = "q=0" if q == 0 else ("count=0" if c == 0 else ("count<q" if c < q else "count>=q"))
        ctx.bump_in("classes", cls)
        wit = {"count": c, "rate_bits": dbits(r), "rate": r,
               "got": {"hi_size": hsize, "hi_spe": hspe, "ov_size": osize, "ov_spe": ospe}}

        def bad(rule, what):
            ctx.violation(f"{rule} {cls}", what + f" (count={c}, rate={r!r})", wit)

        if (hsize == 0) != (c == 0 or q == 0):
            bad("hi-emptiness", f"high-res size {hsize} but count={c}, q={q}")
        if (osize == 0) != (c == 0 or q == 0):
            bad("ov-emptiness", f"overview size {osize} but count={c}, q={q}")
        if nontriv:
            if hspe != float(q):
                bad("hi-spe", f"samples_per_entry {hspe} != quantisation number {q}")
            if hsize * q < c:
                bad("hi-cover", f"{hsize} entries * {q} < count")
            if (hsize - 1) * q >= c:
                bad("hi-minimal", f"{hsize} entries has a whole entry of slack")
            if osize != 1024:
                bad("ov-size", f"overview size {osize} != 1024")
            if dbits(ospe) != dbits(eospe):
                bad("ov-spe", f"overview samples_per_entry {ospe!r} != {eospe!r}")
        else:
            if hspe != 0.0 or ospe != 0.0:
                bad("empty-spe", f"empty extents with non-zero samples_per_entry {hspe},{ospe}")
        if prev is not None and prev[1] == r and prev[0] + 1 == c:
            ctx.bump("monotone_pairs")
            if hsize < prev[2]:
                bad("monotone", f"high-res size decreased from {prev[2]} to {hsize} when count grew by 1")
            if osize < prev[3]:
                bad("monotone-ov", f"overview size decreased from {prev[3]} to {osize}")
        prev = (c, r, hsize, osize)


def make_cases(pts, batch):
    cases = []
    for i in range(0, len(pts), batch):
        chunk = pts[i:i + batch]
        cases.append({"id": "p%d" % i, "ops": [{"op": "extents", "items": [[c, dbits(r)] for c, r in chunk]}],
                      "_pts": None})
    return cases


def _run_points(ctx, pts, batch=5000, fpround=None):
    cases = []
    index = {}
    for i in range(0, len(pts), batch):
        chunk = pts[i:i + batch]
        cid = "p%s%d" % (fpround or "", i)
        index[cid] = chunk
        op = {"op": "extents", "items": [[c, dbits(r)] for c, r in chunk]}
        if fpround:
            op["fpround"] = fpround
        cases.append({"id": cid, "ops": [op]})

    def on_result(res):
        chunk = index[res.case["id"]]
        if res.crash:
            w = res.crash.get("witness")
            ctx.violation("op-did-not-complete " + res.crash["kind"] + " at=" + res.crash["site"],
                          "extents computation died: " + res.crash["kind"],
                          {"points": [[c, dbits(r)] for c, r in chunk[:50]], "crash": res.crash["kind"]})
            return
        ev = res.events[0]
        if "exc" in ev:
            ctx.violation("throws " + ev["exc"]["type"], "extents function threw " + ev["exc"]["type"],
                          {"points": [[c, dbits(r)] for c, r in chunk[:50]]})
            return
        judge_batch(ctx, chunk, ev["ret"])

    runner.run_cases(cases, cfg="plain", on_result=on_result)


def concurrent_stage(ctx):
    """The two functions called from four threads at once (race-detector build), each thread working through tracks of a
    different sample rate, as an importer with a thread pool does.  Every answer is judged like a single-threaded one, and
    ThreadSanitizer watches for unsynchronised shared state."""
    rates = [44100.0, 48000.0, 96000.0, 22050.0, 88200.0, 32000.0, 44100.5, 209.0]
    ncase = 6 if ctx.tier == "quick" else 60
    per = 1500 if ctx.tier == "quick" else 6000
    cases, index = [], {}
    for k in range(ncase):
        lists = []
        for t in range(4):
            r = rates[(k + 2 * t) % len(rates)]
            lists.append([(ctx.rng.randrange(0, 10 ** 9), r) for _ in range(per)])
        cid = "mt%d" % k
        index[cid] = lists
        cases.append({"id": cid, "no_tz": True,
                      "ops": [{"op": "mt_extents", "rounds": 6, "lists": [[[c, dbits(r)] for c, r in lst] for lst in lists]}]})

    def on_result(res):
        lists = index[res.case["id"]]
        wit = {"concurrent": True, "threads": 4, "rates": [lst[0][1] for lst in lists], "points": [[c, dbits(r)] for c, r in lists[0][:20]]}
        if res.crash:
            ctx.count()
            ctx.violation("concurrent-calls " + res.crash["kind"] + " at=" + res.crash["site"],
                          "calling the extents functions from four threads at once: " + res.crash["kind"] + " in " + res.crash["site"] +
                          " :: " + res.crash.get("stderr", "")[:600].replace("\n", " | "), dict(wit, crash=res.crash["kind"]))
            return
        ev = res.events[0]
        if "exc" in ev:
            ctx.violation("concurrent-calls throws " + ev["exc"]["type"], "threw " + ev["exc"]["type"], wit)
            return
        ctx.bump("concurrent_cases")
        for lst, out in zip(lists, ev["ret"]):
            ctx.bump("concurrent_calls_judged", len(lst))
            nv = len(ctx.viol)
            judge_batch(ctx, lst, out)
            if len(ctx.viol) > nv:
                ctx.violation("concurrent-calls wrong-answer", "an answer given while other threads were calling the same functions with "
                              "other rates is wrong (see the accompanying key)", wit)

    runner.run_cases(cases, cfg="tsan", on_result=on_result, stall_timeout=300)
    if not ctx.extra.get("concurrent_cases") and not any(k.startswith("concurrent-calls") for k in ctx.viol):
        ctx.fail_harness("the concurrent stage did not run")


def run(ctx):
    n = 200000 if ctx.tier == "quick" else 4000000
    pts = gen_points(ctx.rng, n)
    ctx.extra["points_generated"] = len(pts)
    for p in pts[:3] + pts[len(pts) // 2: len(pts) // 2 + 2]:
        ctx.sample({"count": p[0], "rate": p[1], "expected": dict(zip(("hi_size", "hi_spe", "ov_size", "ov_spe", "q"), expect(*p)))})
    ctx.assumptions += ["Python int arithmetic and int/int true division (correctly rounded) are the exact reference",
                        "every double is a sample rate (negative, NaN and infinite ones included); counts 0..2^62"]
    _run_points(ctx, pts)
    # the same functions called while the thread's floating-point rounding mode is not round-to-nearest: the answers are defined
    # by integer arithmetic and must not move.  (Counts stay below 2^53 here: beyond that the conversion of the rounded count to
    # a double legitimately depends on the mode.)
    # (likewise rates stay within [.., 2^31]: a quantisation number beyond 2^53 is converted to a double, too)
    small = [(c, r) for c, r in pts if c < 2 ** 53 and (r != r or r <= 2.0 ** 31)]
    for mode in ("down", "up", "zero"):
        sub = small[::7] if ctx.tier == "quick" else small[::3]
        sub += [(c, float(m * 210)) for m in (1, 2, 39, 105, 210, 228, 420, 840, 914) for c in (1, m * 420 - 1, m * 420, m * 420 + 1, 10 ** 7 + m)]
        ctx.bump_in("points_run_under_a_non_default_rounding_mode", mode, len(sub))
        _run_points(ctx, sub, fpround=mode)
    concurrent_stage(ctx)


def replay(ctx, doc):
    r = doc["replay"]
    if r.get("concurrent"):
        concurrent_stage(ctx)
        return
    if "points" in r:
        pts = [(c, undbits(h)) for c, h in r["points"]]
    else:
        pts = [(r["count"], undbits(r["rate_bits"]))]
    _run_points(ctx, pts)
    for mode in ("down", "up", "zero"):
        _run_points(ctx, [p for p in pts if p[0] < 2 ** 53 and (p[1] != p[1] or p[1] <= 2.0 ** 31)], fpround=mode)
