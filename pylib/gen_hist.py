"""History generators shared by the stateful checks (C06-C11, C14-C16).

A history is a list of executor ops plus, per op, a small `meta` record that
tells the oracle what was intended (target handles, field, value, whether a
rejection would be excusable).  Generation is steered by a light-weight model
of which handles are alive so that ops stay meaningful.
"""
from . import gen_snap as GS
from .framework import is_v2

SETTER_FIELDS = ["album", "artist", "average_loudness", "beatgrid", "bitrate", "bpm", "comment", "composer",
                 "duration", "genre", "hot_cues", "key", "last_played_at", "loops", "main_cue", "publisher",
                 "rating", "relative_path", "sample_count", "sample_rate", "title", "track_number", "waveform",
                 "year"]
# pairs that share storage: bias sequences toward them
COUPLED = [("main_cue", "hot_cues"), ("main_cue", "hot_cue_at"), ("sample_count", "beatgrid"),
           ("sample_count", "waveform"), ("sample_rate", "waveform"), ("sample_rate", "beatgrid"),
           ("key", "average_loudness"), ("key", "sample_rate"), ("bpm", "beatgrid"),
           ("relative_path", "title"), ("hot_cues", "loops"), ("hot_cue_at", "loop_at"),
           ("average_loudness", "sample_count"), ("duration", "sample_count"), ("rating", "key"),
           ("last_played_at", "rating"), ("bitrate", "year"), ("year", "track_number")]


class Uniq:
    """Per-case pools so that values never repeat across same-typed fields."""

    def __init__(self):
        self.s, self.i, self.d, self.lab = set(), set(), set(), set()


def setter_value(rng, schema, field, u, have_rate_and_count=True):
    """Returns (value, excusable_rejection: bool) for a single-field setter."""
    v2 = is_v2(schema)
    minlabel = 0 if v2 else 1
    r = rng.random()
    if field in GS.STRING_FIELDS:
        if r < 0.12:
            return None, False
        return GS.rstring(rng, field, u.s, allow_nul=True), False
    if field in GS.INT_FIELDS:
        if r < 0.12:
            return None, False
        return GS.rint(rng, u.i), False
    if field == "rating":
        if r < 0.12:
            return None, False
        return rng.choice([0, 1, 20, 50, 99, 100, 101, 1000, -1, -5, rng.randrange(0, 101)]), False
    if field == "duration":
        if r < 0.12:
            return None, False
        return rng.choice([0, 1, 999, 1000, 1001, 59999, 60000, 366000, rng.randrange(0, 10 ** 7)]), False
    if field == "last_played_at":
        if r < 0.12:
            return None, False
        secs = rng.choice([0, 1, 1500000000, 2 ** 31, 7258118400, rng.randrange(0, 7258118400)])
        return secs * GS.NS + rng.choice([0, 1, 999999999, rng.randrange(0, GS.NS)]), False
    if field == "bpm":
        if r < 0.12:
            return None, False
        return GS.rfinite(rng, u.d, 0.0, 1000.0), False
    if field == "key":
        if r < 0.12:
            return None, False
        return rng.randrange(0, 24), False
    if field in ("average_loudness", "main_cue"):
        if r < 0.12:
            return None, False
        if r < 0.18:
            return GS.dbits(0.0), False  # documented: zero means none
        return (GS.rfinite(rng, u.d, 0.0, 1.0) if field == "average_loudness" else GS.rfinite(rng, u.d, -1e9, 1e9)), False
    if field == "sample_rate":
        if r < 0.1:
            return None, False
        if r < 0.14:
            return GS.dbits(0.0), True  # equal to the 'absent' sentinel
        return GS.dbits(GS.rate_pool(rng)), False
    if field == "sample_count":
        if r < 0.1:
            return None, False
        if r < 0.14:
            return 0, True
        return rng.choice([1, 44100, 13230000, 2 ** 31, 2 ** 40, rng.randrange(1, 10 ** 9)]), False
    if field == "relative_path":
        return GS.rpath(rng, u.s), False
    if field == "hot_cues":
        lst = GS.rslots(rng, lambda: GS.rhot_cue(rng, u.lab, u.d, minlabel, True))
        return lst, False
    if field == "loops":
        lst = GS.rslots(rng, lambda: GS.rloop(rng, u.lab, u.d, minlabel, True))
        return lst, False
    if field == "beatgrid":
        return GS.rgrid(rng), False
    if field == "waveform":
        n = rng.choice([0, 1, 7, 64, 200, 1024])
        if rng.random() < 0.12:
            # sizes of real tracks: tens of thousands of entries, and those whose stored payload is an exact multiple of
            # the 16 KiB chunk the container is written in (30 + 6n bytes on 1.x: n = 8187, 16379, 24571)
            n = rng.choice([8187, 16379, 24571, 8186, 8188, 5461, 30000])
        return (GS.rwaveform(rng, n) if n else ""), False
    raise ValueError(field)


def related_value(rng, field, prev):
    """A value for `field` that is a close relative of the value `prev` set earlier on the same track: a double a hair away from it,
    a string that differs from it only in letter case.  Returns None when no such relative exists.  (Re-tagging a file fixes the
    capitalisation of a title or a file name, re-analysis moves a tempo by a thousandth: an 'unchanged' test that is too lenient
    drops exactly these.)"""
    if prev is None:
        return None
    if field in ("bpm", "average_loudness", "main_cue") and isinstance(prev, str) and len(prev) == 16:
        x = GS.undbits(prev)
        if x != x or x in (float("inf"), float("-inf")) or x == 0.0:
            return None
        import math
        y = rng.choice([math.nextafter(x, math.inf), x * (1 + 1e-12), x * (1 + 1e-9), x + 0.0001, x + 0.004, x - 0.0004, x * (1 - 3e-6)])
        if field == "average_loudness" and not (0.0 < y <= 1.0):
            return None
        return GS.dbits(y) if y != x else None
    if field in ("title", "artist", "album", "genre", "comment", "publisher", "composer", "relative_path") and isinstance(prev, str):
        try:
            b = bytes.fromhex(prev)
            t = b.decode("utf-8")
        except (ValueError, UnicodeDecodeError):
            return None
        if field == "relative_path":
            # only the file name changes its case (the folders stay), as after a rename on a case-insensitive file system
            head, sep, tail = t.rpartition("/")
            t2 = head + sep + tail.swapcase()
        else:
            t2 = t.swapcase()
        return t2.encode("utf-8").hex() if t2 != t else None
    return None


def slot_value(rng, schema, which, u):
    v2 = is_v2(schema)
    minlabel = 0 if v2 else 1
    if rng.random() < 0.25:
        return None
    if which == "hot_cue":
        return GS.rhot_cue(rng, u.lab, u.d, minlabel, True)
    return GS.rloop(rng, u.lab, u.d, minlabel, True)


def gen_setter_history(rng, schema, n_tracks=2, n_ops=30, big=False, first_id=None, no_perf_row=False, foreign_flags=False):
    """Ops: create n tracks from rich snapshots, then n_ops single-field setter calls.
    Returns (ops, metas): metas[i] describes ops[i] (None for set-up ops)."""
    u = Uniq()
    ops = [{"op": "create_temporary", "schema": schema}]
    metas = [None]
    if first_id is not None:
        pre = first_id_prelude(schema, first_id)
        ops += pre
        metas += [None] * len(pre)
    for t in range(n_tracks):
        s = GS.gen_snapshot(rng, schema, rich=True, hostile_sentinels=False)
        # always give rate and count so that waveform setters are in contract
        s.setdefault("sample_rate", GS.dbits(rng.choice([44100.0, 48000.0])))
        s.setdefault("sample_count", rng.randrange(10 ** 5, 10 ** 8))
        ops.append({"op": "create_track", "as": "t%d" % t, "snap": s})
        metas.append({"kind": "create", "t": "t%d" % t})
    last_field = None
    # the value each track was created with / last given, per field (for values that are close relatives of it)
    last_val = {}
    for t in range(n_tracks):
        sn = ops[len(ops) - n_tracks + t]["snap"]
        for f in ("bpm", "average_loudness", "main_cue", "title", "artist", "album", "genre", "comment", "publisher", "composer", "relative_path"):
            if sn.get(f) is not None:
                last_val[("t%d" % t, f)] = sn[f]
    rate_count_ok = {("t%d" % t): True for t in range(n_tracks)}
    if no_perf_row and not is_v2(schema):
        # the first track as Engine leaves a track it has imported but not analysed: no performance-data row at all
        p0 = ops[-n_tracks]["snap"]["relative_path"]
        ops.append({"op": "raw_exec", "sql": "DELETE FROM PerformanceData WHERE id = (SELECT id FROM Track WHERE path = ?)", "params": [{"t": p0}]})
        metas.append(None)
        rate_count_ok["t0"] = False
    if foreign_flags and not is_v2(schema):
        # ... and with performance data as Engine writes it after the DJ has edited the grid by hand: the adjusted grid differs from
        # the default one (this library always writes the two equal).  Planted by SQL into the first track before any setter runs.
        from . import engine_codec as EC
        s0 = ops[-n_tracks]["snap"]
        o0 = rng.uniform(0, 5000)
        spb = rng.uniform(15000, 30000)
        nb = rng.randrange(64, 400)
        dflt = [[0, GS.dbits(o0)], [nb, GS.dbits(o0 + nb * spb)]]
        adj = [[0, GS.dbits(o0 + 321.5)], [nb // 2, GS.dbits(o0 + 321.5 + (nb // 2) * spb * 1.01)], [nb, GS.dbits(o0 + 321.5 + nb * spb)]]
        blob = EC.ENC["v1_beat_data"]({"sample_rate": s0["sample_rate"], "sample_count": GS.dbits(float(s0["sample_count"])), "default": dflt, "adjusted": adj})
        ops.append({"op": "raw_exec", "sql": "UPDATE PerformanceData SET beatData = ? WHERE id = (SELECT id FROM Track WHERE path = ?)",
                    "params": [{"b": blob.hex()}, {"t": s0["relative_path"]}]})
        metas.append(None)
    if foreign_flags:
        # the tracks as Engine DJ leaves them after the user has worked with them: grid locked, played, imported ... - columns no
        # getter shows and no setter is documented to consult
        ops.append({"op": "foreign_flags", "pick": rng.choice([-1, -1, 1, rng.randrange(1, 2048)])})
        metas.append(None)
    for _ in range(n_ops):
        th = "t%d" % rng.randrange(n_tracks)
        # choose a field, biased toward storage-coupled pairs
        if last_field and rng.random() < 0.45:
            partners = [b for a, b in COUPLED if a == last_field] + [a for a, b in COUPLED if b == last_field]
            field = rng.choice(partners) if partners else rng.choice(SETTER_FIELDS)
        else:
            field = rng.choice(SETTER_FIELDS + ["hot_cue_at", "loop_at", "hot_cue_at", "loop_at"])
        if field == "waveform" and not rate_count_ok[th]:
            field = "title"
        if field in ("hot_cue_at", "loop_at"):
            which = "hot_cue" if field == "hot_cue_at" else "loop"
            idx = rng.choice([0, 7, rng.randrange(8)])
            val = slot_value(rng, schema, which, u)
            ops.append({"op": "set_at", "t": th, "field": which, "index": idx, "value": val})
            # (a track without performance data has no cue / loop slots at all, as hot_cues() and loops() report: a slot
            # setter may refuse there, changing nothing)
            metas.append({"kind": "set_at", "t": th, "field": which, "index": idx, "value": val,
                          "excusable": bool(no_perf_row and not is_v2(schema) and th == "t0")})
        else:
            val, exc = setter_value(rng, schema, field, u)
            if rng.random() < 0.3:
                rel = related_value(rng, field, last_val.get((th, field)))
                if rel is not None:
                    val, exc = rel, False
            if val is not None and not exc:
                last_val[(th, field)] = val
            if field in ("sample_rate", "sample_count") and (val is None or exc):
                rate_count_ok[th] = False
            elif field in ("sample_rate", "sample_count"):
                pass
            ops.append({"op": "set", "t": th, "field": field, "value": val})
            metas.append({"kind": "set", "t": th, "field": field, "value": val, "excusable": exc})
        last_field = field
    return ops, metas


# ---------------------------------------------------------------- mixed library histories
def gen_library_history(rng, schema, n_ops, rich_tracks=2, hostile=False):
    """A history that populates a library with richly described tracks, crates and memberships and then
    interleaves single-field setters, crate operations and membership operations.
    Returns (ops, metas); metas carry 'kind' as produced by the forest / setter generators."""
    from . import forest as FO
    st = FO.GenState(schema)
    u = Uniq()
    ops, metas = [], []

    def push(pair):
        op, meta = pair
        if op is not None:
            ops.append(op)
            metas.append(meta)

    for _ in range(rich_tracks):
        push(FO.gen_track_create(rng, st, rich=True))
    guard = 0
    while len(st.live_crates()) < 3 and guard < 12:
        push(FO.gen_crate_op(rng, st, hostile=False))
        guard += 1
    push(FO.gen_track_create(rng, st))
    guard = 0
    while len(st.members) < 2 and guard < 12:
        push(FO.gen_membership_op(rng, st))
        guard += 1
    waveform_ok = {h: True for h in st.tracks}
    last_val = {}
    for _ in range(n_ops):
        r = rng.random()
        lt = st.live_tracks()
        if r < 0.35 and lt:
            th = rng.choice(lt)
            field = rng.choice(SETTER_FIELDS + ["hot_cue_at", "loop_at"])
            if field == "waveform" and not waveform_ok.get(th, False):
                field = "comment"
            if field in ("hot_cue_at", "loop_at"):
                which = "hot_cue" if field == "hot_cue_at" else "loop"
                idx = rng.randrange(8)
                val = slot_value(rng, schema, which, u)
                push(({"op": "set_at", "t": th, "field": which, "index": idx, "value": val},
                      {"kind": "set_at", "t": th, "field": which, "index": idx, "value": val}))
            else:
                val, exc = setter_value(rng, schema, field, u)
                if rng.random() < 0.3:
                    rel = related_value(rng, field, last_val.get((th, field)))
                    if rel is not None:
                        val, exc = rel, False
                if val is not None and not exc:
                    last_val[(th, field)] = val
                if field in ("sample_rate", "sample_count"):
                    waveform_ok[th] = False if (val is None or exc) else waveform_ok.get(th, False)
                push(({"op": "set", "t": th, "field": field, "value": val},
                      {"kind": "set", "t": th, "field": field, "value": val}))
        elif r < 0.65:
            push(FO.gen_crate_op(rng, st, hostile=hostile))
        elif r < 0.72:
            push(FO.gen_track_create(rng, st, rich=rng.random() < 0.5))
        elif r < 0.74 and lt:
            # rows in the tables only Engine DJ writes (prepare list, history, copy records) that name one of the tracks
            push(({"op": "foreign_rows", "t": rng.choice(lt), "list_id": rng.choice([1, 1, 2, 3, 4, 5])}, {"kind": "foreign_rows"}))
        elif r < 0.755 and lt:
            push(({"op": "foreign_flags", "t": rng.choice(lt), "pick": rng.choice([-1, 1, rng.randrange(1, 2048)])}, {"kind": "foreign_rows"}))
        elif r < 0.78 and schema.startswith("2."):
            # a chain re-linked by a foreign writer (Engine DJ re-ordering a list): harness SQL, not a library call
            push(FO.gen_foreign_reorder(rng, st))
        else:
            push(FO.gen_membership_op(rng, st))
    return ops, metas


FIRST_IDS = [2 ** 31 - 3, 2 ** 32 - 3, 2 ** 31 + 7, 2 ** 53 - 3, 2 ** 62]


def first_id_prelude(schema, first_id):
    """Ops that make the next track (and, on 2.x, crate and membership) id be about `first_id`, the way a long-lived
    or merged library has them.  2.x: the AUTOINCREMENT counters are advanced.  1.x: ids are max(id) + 1, so one
    complete track is created through the library and its id moved up in every table that carries it."""
    from .framework import is_v2
    if is_v2(schema):
        return [{"op": "raw_exec", "sql": "DELETE FROM sqlite_sequence WHERE name IN ('Track', 'Playlist', 'PlaylistEntity')"},
                {"op": "raw_exec", "sql": "INSERT INTO sqlite_sequence (name, seq) VALUES ('Track', %d), ('Playlist', %d), ('PlaylistEntity', %d)"
                 % (first_id - 1, first_id - 2, first_id - 3)}]
    from .framework import schema_tuple
    if schema_tuple(schema) >= (1, 17, 0):
        # Track is AUTOINCREMENT from 1.17.0 (and its id is protected by a trigger)
        return [{"op": "raw_exec", "sql": "DELETE FROM music.sqlite_sequence WHERE name = 'Track'"},
                {"op": "raw_exec", "sql": "INSERT INTO music.sqlite_sequence (name, seq) VALUES ('Track', %d)" % (first_id - 1)}]
    ops = [{"op": "create_track", "as": "idseed", "snap": {"relative_path": "69642f736565642e6d7033"}},
           {"op": "release_handle", "h": "idseed"}]
    for tbl, col in (("Track", "id"), ("MetaData", "id"), ("MetaDataInteger", "id"), ("perfdata.PerformanceData", "id")):
        ops.append({"op": "raw_exec", "sql": "UPDATE %s SET %s = %d WHERE %s = (SELECT MAX(id) FROM Track WHERE path = 'id/seed.mp3')"
                    % (tbl, col, first_id - 1, col)} if tbl != "Track" else None)
    ops = [o for o in ops if o]
    # Track last: the sub-select above finds the seed by its path while its id is still the old one
    ops.append({"op": "raw_exec", "sql": "UPDATE Track SET id = %d WHERE path = 'id/seed.mp3'" % (first_id - 1)})
    return ops
