"""Independent implementation of the Engine performance-data blob layouts.

Written against the binary format (field order, widths, endianness, the 4-byte
big-endian length prefix followed by a zlib stream, uncompressed loops), using
only struct and zlib.  Values use the same JSON shapes as the executor
(doubles as 16-hex-digit bit patterns, byte strings as hex), so agreement is
plain equality of documents.
"""
import struct
import zlib


class DecodeError(Exception):
    pass


# ---------------------------------------------------------------- primitives
def dh(bits8):
    """8 raw big-endian bytes of a double -> 16 hex digits."""
    return bits8.hex()


def d_be(h):
    return bytes.fromhex(h)


def d_le(h):
    return bytes.fromhex(h)[::-1]


def dbits(x):
    return struct.pack(">d", x).hex()


def undbits(h):
    return struct.unpack(">d", bytes.fromhex(h))[0]


def wrap(payload):
    """Container: 4-byte big-endian uncompressed length + zlib stream."""
    return struct.pack(">i", len(payload)) + zlib.compress(payload)


def unwrap(blob):
    if len(blob) == 0:
        return b""
    if len(blob) < 4:
        raise DecodeError("container shorter than its length prefix")
    (n,) = struct.unpack(">i", blob[:4])
    if n == 0:
        return b""
    try:
        d = zlib.decompressobj()
        out = d.decompress(blob[4:])
        if not d.eof:
            raise DecodeError("truncated zlib stream")
    except zlib.error as e:
        raise DecodeError("zlib: %s" % e)
    return out


class R:
    """Bounds-checked reader."""

    def __init__(self, b):
        self.b = b
        self.p = 0

    def take(self, n):
        if n < 0 or self.p + n > len(self.b):
            raise DecodeError("read past end")
        v = self.b[self.p:self.p + n]
        self.p += n
        return v

    def u8(self):
        return self.take(1)[0]

    def i32be(self):
        return struct.unpack(">i", self.take(4))[0]

    def i32le(self):
        return struct.unpack("<i", self.take(4))[0]

    def i64be(self):
        return struct.unpack(">q", self.take(8))[0]

    def i64le(self):
        return struct.unpack("<q", self.take(8))[0]

    def f64be(self):
        return self.take(8).hex()

    def f64le(self):
        return self.take(8)[::-1].hex()

    def rest(self):
        v = self.b[self.p:]
        self.p = len(self.b)
        return v

    def left(self):
        return len(self.b) - self.p


MINUS1 = dbits(-1.0)
ZERO = dbits(0.0)


def is_zero(h):
    return h in ("0000000000000000", "8000000000000000")


# ---------------------------------------------------------------- schema 2.x
def enc_v2_track_data(v):
    p = d_be(v["sample_rate"]) + struct.pack(">q", v["samples"]) + struct.pack(">i", v["key"]) + \
        d_be(v["ll"]) + d_be(v["lm"]) + d_be(v["lh"]) + bytes.fromhex(v.get("extra", ""))
    return wrap(p)


def dec_v2_track_data(blob, strict_len=True):
    r = R(unwrap(blob))
    if strict_len and len(r.b) < 44:
        raise DecodeError("track data shorter than 44 bytes")
    v = {"sample_rate": r.f64be(), "samples": r.i64be(), "key": r.i32be(),
         "ll": r.f64be(), "lm": r.f64be(), "lh": r.f64be()}
    v["extra"] = r.rest().hex()
    return v


def _enc_grid2(g):
    out = struct.pack(">q", len(g))
    for off, beat, nb, unk in g:
        out += d_le(off) + struct.pack("<q", beat) + struct.pack("<i", nb) + struct.pack("<i", unk)
    return out


def _dec_grid2(r):
    n = r.i64be()
    if n < 0 or n * 24 > r.left():
        raise DecodeError("grid count does not fit")
    g = []
    for _ in range(n):
        g.append([r.f64le(), r.i64le(), r.i32le(), r.i32le()])
    return g


def enc_v2_beat_data(v):
    p = d_be(v["sample_rate"]) + d_be(v["samples"]) + bytes([v["is_set"] & 255]) + \
        _enc_grid2(v["default"]) + _enc_grid2(v["adjusted"]) + bytes.fromhex(v.get("extra", ""))
    return wrap(p)


def dec_v2_beat_data(blob):
    r = R(unwrap(blob))
    v = {"sample_rate": r.f64be(), "samples": r.f64be(), "is_set": r.u8()}
    v["default"] = _dec_grid2(r)
    v["adjusted"] = _dec_grid2(r)
    v["extra"] = r.rest().hex()
    return v


def enc_v2_quick_cues(v):
    p = struct.pack(">q", len(v["cues"]))
    for c in v["cues"]:
        lab = bytes.fromhex(c["label"])
        if len(lab) > 255:
            raise ValueError("label too long for the format")
        col = c["color"]
        p += bytes([len(lab)]) + lab + d_be(c["off"]) + bytes([col[3], col[0], col[1], col[2]])
    p += d_be(v["adjusted"]) + bytes([v["is_adjusted"] & 255]) + d_be(v["default"]) + bytes.fromhex(v.get("extra", ""))
    return wrap(p)


def dec_v2_quick_cues(blob):
    r = R(unwrap(blob))
    n = r.i64be()
    if n < 0 or n * 13 > r.left():
        raise DecodeError("cue count does not fit")
    cues = []
    for _ in range(n):
        ln = r.u8()
        lab = r.take(ln)
        off = r.f64be()
        a, rr, g, b = r.take(4)
        cues.append({"label": lab.hex(), "off": off, "color": [rr, g, b, a]})
    v = {"cues": cues, "adjusted": r.f64be(), "is_adjusted": r.u8(), "default": r.f64be()}
    v["extra"] = r.rest().hex()
    return v


def enc_v2_loops(v):
    p = struct.pack("<q", len(v["loops"]))
    for l in v["loops"]:
        lab = bytes.fromhex(l["label"])
        if len(lab) > 255:
            raise ValueError("label too long for the format")
        col = l["color"]
        p += bytes([len(lab)]) + lab + d_le(l["start"]) + d_le(l["end"]) + \
            bytes([l["ss"] & 255, l["es"] & 255, col[3], col[0], col[1], col[2]])
    return p + bytes.fromhex(v.get("extra", ""))


def dec_v2_loops(blob):
    r = R(blob)
    n = r.i64le()
    if n < 0 or n * 23 > r.left():
        raise DecodeError("loop count does not fit")
    loops = []
    for _ in range(n):
        ln = r.u8()
        lab = r.take(ln)
        st, en = r.f64le(), r.f64le()
        ss, es, a, rr, g, b = r.take(6)
        loops.append({"label": lab.hex(), "start": st, "end": en, "ss": ss, "es": es, "color": [rr, g, b, a]})
    return {"loops": loops, "extra": r.rest().hex()}


def enc_v2_overview(v, n1=None, n2=None):
    pts = bytes.fromhex(v["points"])
    n = len(pts) // 3
    p = struct.pack(">q", n if n1 is None else n1) + struct.pack(">q", n if n2 is None else n2) + d_be(v["spp"]) + \
        pts + bytes(v["max"]) + bytes.fromhex(v.get("extra", ""))
    return wrap(p)


def dec_v2_overview(blob):
    r = R(unwrap(blob))
    n1, n2 = r.i64be(), r.i64be()
    spp = r.f64be()
    if n1 != n2 or n1 < 0 or n1 * 3 + 3 > r.left():
        raise DecodeError("overview counts inconsistent")
    pts = r.take(3 * n1)
    mx = list(r.take(3))
    return {"spp": spp, "points": pts.hex(), "max": mx, "extra": r.rest().hex()}


# ---------------------------------------------------------------- schema 1.x
def _enc_grid1(g):
    out = struct.pack(">q", len(g))
    for k, (idx, off) in enumerate(g):
        diff = g[k + 1][0] - idx if k + 1 < len(g) else 0
        out += d_le(off) + struct.pack("<q", idx) + struct.pack("<i", diff) + struct.pack("<i", 0)
    return out


def _dec_grid1(r):
    n = r.i64be()
    if n < 0 or n * 24 > r.left():
        raise DecodeError("grid count does not fit")
    g = []
    for _ in range(n):
        off = r.f64le()
        idx = r.i64le()
        r.i32le()
        r.i32le()
        g.append([idx, off])
    return g


def _opt_d(h):
    return None if is_zero(h) else h


def enc_v1_beat_data(v):
    p = d_be(v["sample_rate"] or ZERO) + d_be(v["sample_count"] or ZERO) + b"\x01" + \
        _enc_grid1(v["default"]) + _enc_grid1(v["adjusted"])
    return wrap(p)


def dec_v1_beat_data(blob):
    r = R(unwrap(blob))
    v = {"sample_rate": _opt_d(r.f64be()), "sample_count": _opt_d(r.f64be())}
    r.u8()
    v["default"] = _dec_grid1(r)
    v["adjusted"] = _dec_grid1(r)
    if any(r.rest()):
        raise DecodeError("non-zero trailing data")
    return v


def _enc_wave6(v, n_override=None):
    w = bytes.fromhex(v["waveform"])
    n = len(w) // 6
    # stored order: low, mid, high values then low, mid, high opacities
    body = bytearray()
    mx = [0] * 6
    for i in range(n):
        lv, lo, mv, mo, hv, ho = w[6 * i:6 * i + 6]
        e = (lv, mv, hv, lo, mo, ho)
        body += bytes(e)
        mx = [max(a, b) for a, b in zip(mx, e)]
    nn = n if n_override is None else n_override
    return struct.pack(">q", nn) + struct.pack(">q", nn) + d_be(v["spe"]) + bytes(body) + bytes(mx)


def enc_v1_high_res(v):
    return wrap(_enc_wave6(v))


def dec_v1_high_res(blob):
    r = R(unwrap(blob))
    n1, n2 = r.i64be(), r.i64be()
    spe = r.f64be()
    if n1 != n2 or n1 < 0 or 6 * (n1 + 1) != r.left():
        raise DecodeError("waveform counts inconsistent")
    out = bytearray()
    for _ in range(n1):
        lv, mv, hv, lo, mo, ho = r.take(6)
        out += bytes((lv, lo, mv, mo, hv, ho))
    r.take(6)
    return {"spe": spe, "waveform": bytes(out).hex()}


def enc_v1_overview(v):
    w = bytes.fromhex(v["waveform"])
    n = len(w) // 6
    body = bytearray()
    mx = [0, 0, 0]
    for i in range(n):
        lv, _lo, mv, _mo, hv, _ho = w[6 * i:6 * i + 6]
        body += bytes((lv, mv, hv))
        mx = [max(mx[0], lv), max(mx[1], mv), max(mx[2], hv)]
    return wrap(struct.pack(">q", n) + struct.pack(">q", n) + d_be(v["spe"]) + bytes(body) + bytes(mx))


def dec_v1_overview(blob):
    r = R(unwrap(blob))
    n1, n2 = r.i64be(), r.i64be()
    spe = r.f64be()
    if n1 != n2 or n1 < 0 or 3 * (n1 + 1) != r.left():
        raise DecodeError("waveform counts inconsistent")
    out = bytearray()
    for _ in range(n1):
        lv, mv, hv = r.take(3)
        out += bytes((lv, 255, mv, 255, hv, 255))  # the overview stores no opacity
    r.take(3)
    return {"spe": spe, "waveform": bytes(out).hex()}


def enc_v1_loops(v):
    p = struct.pack("<q", len(v["loops"]))
    for l in v["loops"]:
        if l is None:
            p += b"\x00" + d_le(MINUS1) + d_le(MINUS1) + bytes(6)
        else:
            lab = bytes.fromhex(l["label"])
            if len(lab) > 255 or len(lab) == 0:
                raise ValueError("label not representable")
            col = l["color"]
            p += bytes([len(lab)]) + lab + d_le(l["start"]) + d_le(l["end"]) + \
                bytes([1, 1, col[3], col[0], col[1], col[2]])
    return p


def dec_v1_loops(blob):
    r = R(blob)
    n = r.i64le()
    if n < 0 or n * 23 > r.left():
        raise DecodeError("loop count does not fit")
    loops = []
    for _ in range(n):
        ln = r.u8()
        lab = r.take(ln)
        st, en = r.f64le(), r.f64le()
        _ss, _es, a, rr, g, b = r.take(6)
        if st == MINUS1:
            loops.append(None)
        else:
            loops.append({"label": lab.hex(), "start": st, "end": en, "color": [rr, g, b, a]})
    if r.left():
        raise DecodeError("trailing data")
    return {"loops": loops}


def enc_v1_quick_cues(v):
    p = struct.pack(">q", len(v["cues"]))
    for c in v["cues"]:
        if c is None:
            p += b"\x00" + d_be(MINUS1) + bytes(4)
        else:
            lab = bytes.fromhex(c["label"])
            if len(lab) > 255 or len(lab) == 0:
                raise ValueError("label not representable")
            col = c["color"]
            p += bytes([len(lab)]) + lab + d_be(c["off"]) + bytes([col[3], col[0], col[1], col[2]])
    adjusted = 0 if undbits(v["adjusted"]) == undbits(v["default"]) else 1
    p += d_be(v["adjusted"]) + bytes([adjusted]) + d_be(v["default"])
    return wrap(p)


def dec_v1_quick_cues(blob):
    r = R(unwrap(blob))
    n = r.i64be()
    if n < 0 or n * 13 > r.left():
        raise DecodeError("cue count does not fit")
    cues = []
    for _ in range(n):
        ln = r.u8()
        lab = r.take(ln)
        off = r.f64be()
        a, rr, g, b = r.take(4)
        if off == MINUS1:
            cues.append(None)
        else:
            cues.append({"label": lab.hex(), "off": off, "color": [rr, g, b, a]})
    v = {"cues": cues, "adjusted": r.f64be()}
    r.u8()
    v["default"] = r.f64be()
    if r.left():
        raise DecodeError("trailing data")
    return v


def enc_v1_track_data(v):
    p = d_be(v["sample_rate"] or ZERO) + struct.pack(">q", v["sample_count"] or 0) + \
        d_be(v["average_loudness"] or ZERO) + struct.pack(">i", v["key"] or 0)
    return wrap(p)


def dec_v1_track_data(blob):
    r = R(unwrap(blob))
    if len(r.b) != 28:
        raise DecodeError("track data is not 28 bytes")
    rate = _opt_d(r.f64be())
    cnt = r.i64be()
    loud = _opt_d(r.f64be())
    key = r.i32be()
    return {"sample_rate": rate, "sample_count": cnt or None, "average_loudness": loud, "key": key or None}


ENC = {
    "v2_track_data": enc_v2_track_data, "v2_beat_data": enc_v2_beat_data, "v2_quick_cues": enc_v2_quick_cues,
    "v2_loops": enc_v2_loops, "v2_overview": enc_v2_overview,
    "v1_beat_data": enc_v1_beat_data, "v1_high_res": enc_v1_high_res, "v1_loops": enc_v1_loops,
    "v1_overview": enc_v1_overview, "v1_quick_cues": enc_v1_quick_cues, "v1_track_data": enc_v1_track_data,
}
DEC = {
    "v2_track_data": dec_v2_track_data, "v2_beat_data": dec_v2_beat_data, "v2_quick_cues": dec_v2_quick_cues,
    "v2_loops": dec_v2_loops, "v2_overview": dec_v2_overview,
    "v1_beat_data": dec_v1_beat_data, "v1_high_res": dec_v1_high_res, "v1_loops": dec_v1_loops,
    "v1_overview": dec_v1_overview, "v1_quick_cues": dec_v1_quick_cues, "v1_track_data": dec_v1_track_data,
}
KINDS = sorted(ENC)
V2_KINDS = [k for k in KINDS if k.startswith("v2_")]
V1_KINDS = [k for k in KINDS if k.startswith("v1_")]
COMPRESSED = {k: k not in ("v2_loops", "v1_loops") for k in KINDS}


def payload(kind, blob):
    """The uncompressed payload of a blob of the given kind."""
    return unwrap(blob) if COMPRESSED[kind] else bytes(blob)
