"""Single structural mutations of an Engine library file, applied with Python's own sqlite3 (C17).

enumerate_mutations(path) lists every applicable mutation of one database file; apply_mutation(path, m) applies one
in place and reports whether it did exactly what was intended (judged from a before/after diff of
sqlite_master / table_info / index_list / index_info) and left the file healthy (integrity_check)."""
import re
import sqlite3


def signature(con):
    sig = {"tables": {}, "views": set(), "indexes": {}, "triggers": set()}
    for typ, name, tbl in con.execute("SELECT type, name, tbl_name FROM sqlite_master").fetchall():
        if typ == "table":
            if name.startswith("sqlite_"):
                continue
            cols = con.execute('PRAGMA table_info("%s")' % name).fetchall()
            sig["tables"][name] = [(c[1], (c[2] or ""), c[3], c[4], c[5]) for c in cols]
        elif typ == "view":
            sig["views"].add(name)
        elif typ == "trigger":
            sig["triggers"].add(name)
    for t in list(sig["tables"]):
        for row in con.execute('PRAGMA index_list("%s")' % t).fetchall():
            iname, unique, origin = row[1], row[2], row[3]
            cols = [r[2] for r in con.execute('PRAGMA index_info("%s")' % iname).fetchall()]
            sig["indexes"][iname] = (t, unique, origin, tuple(cols))
    return sig


def split_top_level(body):
    parts, depth, cur, q = [], 0, "", None
    for ch in body:
        if q:
            cur += ch
            if ch == q:
                q = None
            continue
        if ch in "'\"`":
            q = ch
            cur += ch
        elif ch == "[":
            q = "]"
            cur += ch
        elif ch == "(":
            depth += 1
            cur += ch
        elif ch == ")":
            depth -= 1
            cur += ch
        elif ch == "," and depth == 0:
            parts.append(cur)
            cur = ""
        else:
            cur += ch
    parts.append(cur)
    return parts


def first_ident(seg):
    m = re.match(r"\s*(\[([^\]]+)\]|\"([^\"]+)\"|`([^`]+)`|([A-Za-z_][A-Za-z0-9_]*))", seg)
    if not m:
        return None, 0
    return (m.group(2) or m.group(3) or m.group(4) or m.group(5)), m.end()


def table_body(sql):
    i = sql.index("(")
    j = sql.rindex(")")
    return sql[:i + 1], sql[i + 1:j], sql[j:]


CONSTRAINT_WORDS = {"primary", "unique", "foreign", "constraint", "check"}


def edit_column(sql, column, how):
    """Returns new CREATE TABLE text with the definition of `column` edited, or None."""
    head, body, tail = table_body(sql)
    parts = split_top_level(body)
    for k, seg in enumerate(parts):
        name, end = first_ident(seg)
        if name is None or name.lower() in CONSTRAINT_WORDS and not seg.strip().startswith(("[", '"', "`")):
            continue
        if name.lower() != column.lower():
            continue
        rest = seg[end:]
        if how in ("type_case", "type_prefix"):
            m = re.match(r"(\s*)([A-Za-z]+)", rest)
            if not m:
                return None
            old = m.group(2)
            new = (old.lower() if old != old.lower() else old.upper()) if how == "type_case" else (old[:3] if len(old) > 3 else old + "X")
            if new == old:
                return None
            rest = m.group(1) + new + rest[m.end():]
        elif how == "type":
            m = re.match(r"(\s*)([A-Za-z]+)", rest)
            if m:
                old = m.group(2).upper()
                new = "TEXT" if old in ("INTEGER", "REAL", "NUMERIC", "BOOLEAN", "DATETIME", "BLOB") else "INTEGER"
                rest = m.group(1) + new + rest[m.end():]
            else:
                rest = " INTEGER" + rest
        elif how == "notnull":
            if re.search(r"NOT\s+NULL", rest, re.I):
                rest = re.sub(r"\s*NOT\s+NULL", "", rest, flags=re.I)
            else:
                rest = rest.rstrip() + " NOT NULL "
        elif how == "default":
            if re.search(r"DEFAULT\s+", rest, re.I):
                rest = re.sub(r"DEFAULT\s+(\([^)]*\)|'[^']*'|\S+)", "DEFAULT 77", rest, flags=re.I)
            else:
                rest = rest.rstrip() + " DEFAULT 77 "
        elif how == "default_requote":
            # the same default text under different quoting: [0] / "0" / '0' / (0) -> 0, and bare 0 -> '0'
            m = re.search(r"DEFAULT\s+(\([^)]*\)|'[^']*'|\"[^\"]*\"|\[[^\]]*\]|`[^`]*`|\S+)", rest, re.I)
            if not m:
                return None
            tok = m.group(1)
            inner = tok[1:-1] if tok[0] in "([\"'`" and len(tok) >= 2 else None
            new = inner if inner else "'" + tok + "'"
            if not new.strip() or new == tok:
                return None
            rest = rest[:m.start(1)] + new + rest[m.end(1):]
        elif how == "default_remove":
            if not re.search(r"DEFAULT\s+", rest, re.I):
                return None
            rest = re.sub(r"\s*DEFAULT\s+(\([^)]*\)|'[^']*'|\S+)", " ", rest, flags=re.I)
        elif how == "pk":
            if re.search(r"PRIMARY\s+KEY", rest, re.I):
                rest = re.sub(r"\s*PRIMARY\s+KEY(\s+AUTOINCREMENT)?", "", rest, flags=re.I)
            else:
                return None
        parts[k] = seg[:end] + rest
        return head + ",".join(parts) + tail
    return None


def recase(name):
    """The same identifier spelt with the case of one letter changed (the last letter that has a case)."""
    for i in range(len(name) - 1, -1, -1):
        if name[i].isalpha() and name[i].swapcase() != name[i]:
            return name[:i] + name[i].swapcase() + name[i + 1:]
    return None


def enumerate_mutations(path):
    con = sqlite3.connect(path)
    sig = signature(con)
    muts = []
    for t, cols in sig["tables"].items():
        muts.append(("drop_table", t))
        muts.append(("rename_table", t))
        muts.append(("recase_table", t))
        for c in cols:
            muts.append(("recase_column", t, c[0]))
        muts.append(("add_column", t))
        for c in cols:
            name = c[0]
            muts.append(("drop_column", t, name))
            muts.append(("rename_column", t, name))
            for how in ("type", "type_case", "type_prefix", "notnull", "default", "default_remove", "default_requote", "pk"):
                muts.append(("edit_column", t, name, how))
    for v in sig["views"]:
        muts.append(("drop_view", v))
        muts.append(("rename_view", v))
    for i, (t, unique, origin, cols) in sig["indexes"].items():
        if origin == "c":
            muts.append(("drop_index", i))
            muts.append(("index_uniqueness", i))
            muts.append(("index_columns", i))
            muts.append(("rename_index", i))
            muts.append(("recase_index", i))
    muts.append(("add_table",))
    muts.append(("add_table", "AaaVerifExtraTable"))
    muts.append(("add_table", "zzzVerifExtraTable"))
    # names resembling SQLite's own statistics tables (which CREATE TABLE may not use)
    muts.append(("add_table", "SqliteXStat1"))
    muts.append(("add_table", "sqlite3_stat1"))
    muts.append(("add_table", "Sqlite_Sequence2"))
    muts.append(("analyze",))
    muts.append(("add_view",))
    muts.append(("add_view", "SqliteXStat4"))
    muts.append(("add_view", "AaaVerifExtraView"))
    muts.append(("add_view", "zzzVerifExtraView"))
    for t in sig["tables"]:
        muts.append(("add_column_untyped", t))
        muts.append(("add_unique_index", t))
        muts.append(("pk_order", t))
    for t in sig["tables"]:
        muts.append(("add_index", t))
    con.close()
    return muts


def _index_sql(con, name):
    row = con.execute("SELECT sql FROM sqlite_master WHERE type='index' AND name=?", (name,)).fetchone()
    return row[0] if row else None


def apply_mutation(path, m):
    """Applies m in place.  Returns (kept: bool, why: str)."""
    con = sqlite3.connect(path)
    con.execute("PRAGMA foreign_keys=OFF")
    try:
        con.execute("PRAGMA legacy_alter_table=ON")
        before = signature(con)
        kind = m[0]
        if kind == "drop_table":
            con.execute('DROP TABLE "%s"' % m[1])
        elif kind == "rename_table":
            con.execute('ALTER TABLE "%s" RENAME TO "%s_renamed"' % (m[1], m[1]))
        elif kind == "add_column":
            con.execute('ALTER TABLE "%s" ADD COLUMN verif_extra_column INTEGER' % m[1])
        elif kind == "drop_column":
            con.execute('ALTER TABLE "%s" DROP COLUMN "%s"' % (m[1], m[2]))
        elif kind == "rename_column":
            con.execute('ALTER TABLE "%s" RENAME COLUMN "%s" TO "%s_renamed"' % (m[1], m[2], m[2]))
        elif kind == "edit_column":
            row = con.execute("SELECT sql FROM sqlite_master WHERE type='table' AND name=?", (m[1],)).fetchone()
            new = edit_column(row[0], m[2], m[3])
            if new is None or new == row[0]:
                return False, "not applicable"
            con.execute("PRAGMA writable_schema=ON")
            con.execute("UPDATE sqlite_master SET sql=? WHERE type='table' AND name=?", (new, m[1]))
            con.execute("PRAGMA writable_schema=OFF")
            ver = con.execute("PRAGMA schema_version").fetchone()[0]
            con.execute("PRAGMA schema_version=%d" % (ver + 1))
            con.commit()
            con.close()
            con = sqlite3.connect(path)
        elif kind == "drop_view":
            con.execute('DROP VIEW "%s"' % m[1])
        elif kind == "rename_view":
            row = con.execute("SELECT sql FROM sqlite_master WHERE type='view' AND name=?", (m[1],)).fetchone()
            con.execute('DROP VIEW "%s"' % m[1])
            new = re.sub(r"(CREATE\s+VIEW\s+)(\[[^\]]+\]|\"[^\"]+\"|\S+)", r'\1"%s_renamed"' % m[1], row[0], count=1, flags=re.I)
            con.execute(new)
        elif kind == "drop_index":
            con.execute('DROP INDEX "%s"' % m[1])
        elif kind == "rename_index":
            sql = _index_sql(con, m[1])
            con.execute('DROP INDEX "%s"' % m[1])
            new = re.sub(r"(CREATE\s+(UNIQUE\s+)?INDEX\s+)(\[[^\]]+\]|\"[^\"]+\"|\S+)", r'\1"%s_renamed"' % m[1], sql, count=1, flags=re.I)
            con.execute(new)
        elif kind == "index_uniqueness":
            sql = _index_sql(con, m[1])
            con.execute('DROP INDEX "%s"' % m[1])
            if re.match(r"\s*CREATE\s+UNIQUE", sql, re.I):
                new = re.sub(r"CREATE\s+UNIQUE\s+INDEX", "CREATE INDEX", sql, count=1, flags=re.I)
            else:
                new = re.sub(r"CREATE\s+INDEX", "CREATE UNIQUE INDEX", sql, count=1, flags=re.I)
            con.execute(new)
        elif kind == "index_columns":
            t, unique, origin, cols = before["indexes"][m[1]]
            others = [c[0] for c in before["tables"][t] if c[0] not in cols]
            if not others:
                return False, "no other column"
            con.execute('DROP INDEX "%s"' % m[1])
            con.execute('CREATE %sINDEX "%s" ON "%s" ("%s")' % ("UNIQUE " if unique else "", m[1], t, others[0]))
        elif kind == "add_table":
            con.execute("CREATE TABLE %s (a INTEGER, b TEXT)" % (m[1] if len(m) > 1 else "VerifExtraTable"))
        elif kind == "add_view":
            con.execute("CREATE VIEW %s AS SELECT 1 AS one" % (m[1] if len(m) > 1 else "VerifExtraView"))
        elif kind == "add_column_untyped":
            con.execute('ALTER TABLE "%s" ADD COLUMN verif_untyped_column' % m[1])
        elif kind == "add_unique_index":
            t = m[1]
            col = before["tables"][t][-1][0]
            con.execute('CREATE UNIQUE INDEX verif_extra_unique_%s ON "%s" ("%s")' % (t, t, col))
        elif kind == "pk_order":
            row = con.execute("SELECT sql FROM sqlite_master WHERE type='table' AND name=?", (m[1],)).fetchone()
            mm = re.search(r"PRIMARY\s+KEY\s*\(([^)]*,[^)]*)\)", row[0], re.I)
            if not mm:
                return False, "not applicable"
            cols = [c.strip() for c in mm.group(1).split(",")]
            new_sql = row[0][:mm.start(1)] + " " + ", ".join(reversed(cols)) + " " + row[0][mm.end(1):]
            con.execute("PRAGMA writable_schema=ON")
            con.execute("UPDATE sqlite_master SET sql=? WHERE type='table' AND name=?", (new_sql, m[1]))
            con.execute("PRAGMA writable_schema=OFF")
            ver = con.execute("PRAGMA schema_version").fetchone()[0]
            con.execute("PRAGMA schema_version=%d" % (ver + 1))
            con.commit()
            con.close()
            con = sqlite3.connect(path)
        elif kind == "add_index":
            t = m[1]
            col = before["tables"][t][0][0]
            con.execute('CREATE INDEX verif_extra_index_%s ON "%s" ("%s")' % (t, t, col))
        elif kind == "recase_table":
            new = recase(m[1])
            if not new:
                return False, "not applicable"
            con.execute('ALTER TABLE "%s" RENAME TO "verif_tmp_name"' % m[1])
            con.execute('ALTER TABLE "verif_tmp_name" RENAME TO "%s"' % new)
        elif kind == "recase_column":
            new = recase(m[2])
            if not new:
                return False, "not applicable"
            con.execute('ALTER TABLE "%s" RENAME COLUMN "%s" TO "verif_tmp_name"' % (m[1], m[2]))
            con.execute('ALTER TABLE "%s" RENAME COLUMN "verif_tmp_name" TO "%s"' % (m[1], new))
        elif kind == "recase_index":
            new = recase(m[1])
            sql = _index_sql(con, m[1])
            if not new or not sql:
                return False, "not applicable"
            con.execute('DROP INDEX "%s"' % m[1])
            con.execute(re.sub(re.escape(m[1]), new, sql, count=1))
        elif kind == "analyze":
            # what ANALYZE / PRAGMA optimize by any other software leaves behind: the table sqlite_stat1
            con.execute("ANALYZE")
            con.commit()
            n = con.execute("SELECT COUNT(*) FROM sqlite_master WHERE name = 'sqlite_stat1'").fetchone()[0]
            if not n:
                return False, "no structural change"
            if signature(con) != before:
                return False, "change not confined to the target"
            ok = con.execute("PRAGMA integrity_check").fetchall()
            return (True, "ok") if ok == [("ok",)] else (False, "integrity_check")
        else:
            return False, "unknown"
        con.commit()
        after = signature(con)
        if after == before:
            return False, "no structural change"
        # a mutation that leaves a dependent view unresolvable is more than one deviation
        for v in after["views"]:
            try:
                con.execute('SELECT * FROM "%s" LIMIT 0' % v).fetchall()
            except sqlite3.Error as e:
                return False, "breaks a dependent view"
        ok = con.execute("PRAGMA integrity_check").fetchall()
        if ok != [("ok",)]:
            return False, "integrity_check: %s" % str(ok[:1])
        # the change must be confined to the targeted object
        if not _confined(before, after, m):
            return False, "change not confined to the target"
        return True, "ok"
    except sqlite3.Error as e:
        return False, "sqlite: %s" % e
    finally:
        try:
            con.close()
        except Exception:  # noqa: BLE001
            pass


def _confined(before, after, m):
    kind = m[0]
    bt, at = before["tables"], after["tables"]
    if kind == "edit_column":
        t, c, how = m[1], m[2], m[3]
        if set(bt) != set(at) or before["views"] != after["views"]:
            return False
        for name in bt:
            if name != t and bt[name] != at[name]:
                return False
        if len(bt[t]) != len(at[t]):
            return False
        idx = {"type": 1, "type_case": 1, "type_prefix": 1, "notnull": 2, "default": 3, "default_remove": 3, "default_requote": 3, "pk": 4}[how]
        changed = False
        for x, y in zip(bt[t], at[t]):
            if x == y:
                continue
            if x[0] != c:
                # removing a PRIMARY KEY may renumber nothing else; any other column change disqualifies
                return False
            for k in range(5):
                if x[k] != y[k] and k != idx:
                    # dropping PRIMARY KEY on an INTEGER column may also clear an implied NOT NULL: tolerate notnull with pk
                    if not (how == "pk" and k == 2):
                        return False
            changed = x[idx] != y[idx]
        # indexes of other tables unchanged
        for i, v in before["indexes"].items():
            if v[0] != t and after["indexes"].get(i) != v:
                return False
        return changed
    if kind in ("drop_table", "rename_table", "add_column", "add_column_untyped", "drop_column", "rename_column", "pk_order"):
        t = m[1]
        for name in bt:
            if name != t and bt[name] != at.get(name):
                return False
        return True
    if kind in ("drop_view", "rename_view", "add_view"):
        return bt == at and before["indexes"] == after["indexes"]
    if kind in ("drop_index", "rename_index", "index_uniqueness", "index_columns", "add_index", "add_unique_index"):
        return bt == at and before["views"] == after["views"]
    if kind == "add_table":
        return all(bt[n] == at.get(n) for n in bt) and before["views"] == after["views"]
    return True
