"""Reference model of the crate forest and membership relation, the self-consistency
checker over one observation, and the model-steered generator of crate/track histories."""
from . import gen_snap as GS
from .framework import is_v2


def hx(s):
    return s.encode().hex() if isinstance(s, str) else bytes(s).hex()


# includes names that differ only in case or by a trailing space: lookups must tell them apart
# ... and names with SQL wildcards, a backslash, a trailing dot, and the two-character neighbours a wildcard would match
VALID_NAMES = ["a", "b", "c", "d", "x y", "é", "Crate One", "zz", "A", "a ", "B", "a_", "ab", "a%", "%", "_", "back\\slash", "dot.", "100%"]
INVALID_NAMES = ["", "a;b", ";", "tail;"]


def name_invalid(h):
    b = bytes.fromhex(h)
    return b == b"" or b";" in b


# ---------------------------------------------------------------- model
class Forest:
    """id -> (name_hex, parent_id|None); ordered children for 2.x; membership sets."""

    def __init__(self):
        self.name = {}
        self.parent = {}

    def copy(self):
        f = Forest()
        f.name = dict(self.name)
        f.parent = dict(self.parent)
        return f

    def children(self, c):
        return [x for x in self.name if self.parent[x] == c]

    def descendants(self, c):
        out, stack = [], list(self.children(c))
        seen = set()
        while stack:
            x = stack.pop()
            if x in seen:
                continue
            seen.add(x)
            out.append(x)
            stack.extend(self.children(x))
        return out

    def roots(self):
        return [x for x in self.name if self.parent[x] is None]

    def depth(self, c):
        d = 0
        seen = set()
        while self.parent.get(c) is not None and c not in seen:
            seen.add(c)
            c = self.parent[c]
            d += 1
        return d


# ---------------------------------------------------------------- observation access
def is_exc(v):
    return isinstance(v, dict) and "exc" in v


def forest_from_observation(obs):
    """Builds F from crates() + name() + parent(); returns (Forest|None, problems)."""
    problems = []
    db = obs["db"]
    if is_exc(db["crates"]):
        return None, [("crates-throws", "crates() throws %s" % db["crates"]["exc"])]
    L = db["crates"]
    if len(set(L)) != len(L):
        problems.append(("crates-duplicate", "crates() lists an id twice: %s" % L))
    f = Forest()
    for c in set(L):
        o = obs["crates"].get(str(c))
        if o is None:
            problems.append(("crates-unobservable", "crate %d from crates() could not be observed" % c))
            continue
        if is_exc(o["name"]):
            problems.append(("name-throws", "name() of live crate throws %s" % o["name"]["exc"]))
            nm = None
        else:
            nm = o["name"]
        if is_exc(o["parent"]):
            problems.append(("parent-throws", "parent() of live crate throws %s" % o["parent"]["exc"]))
            par = None
        else:
            par = o["parent"]
        f.name[c] = nm
        f.parent[c] = par
    return f, problems


def check_self_consistency(obs, names_in_play):
    """All structural queries must describe the forest F built from crates()+parent().
    Returns list of (rule, message)."""
    f, problems = forest_from_observation(obs)
    if f is None:
        return None, problems
    db = obs["db"]
    live = set(f.name)
    for c in live:
        p = f.parent[c]
        if p is not None and p not in live:
            problems.append(("parent-dead", "parent() of live crate %d is %d, which is not in crates()" % (c, p)))
    # cycles
    for c in live:
        seen = set()
        x = c
        while x is not None and x in live:
            if x in seen:
                problems.append(("cycle", "following parent() from crate %d never reaches a root" % c))
                break
            seen.add(x)
            x = f.parent[x]
    if any(r == "cycle" for r, _ in problems):
        return f, problems
    roots = db["root_crates"]
    if is_exc(roots):
        problems.append(("root_crates-throws", "root_crates() throws %s" % roots["exc"]))
    else:
        if len(set(roots)) != len(roots):
            problems.append(("root_crates-duplicate", "root_crates() lists an id twice: %s" % roots))
        if set(roots) != set(f.roots()):
            problems.append(("root_crates-mismatch", "root_crates() = %s but the parentless crates are %s" %
                             (sorted(roots), sorted(f.roots()))))
    for c in live:
        o = obs["crates"].get(str(c))
        if o is None:
            continue
        ch = o["children"]
        if is_exc(ch):
            problems.append(("children-throws", "children() of live crate throws %s" % ch["exc"]))
        else:
            if len(set(ch)) != len(ch):
                problems.append(("children-duplicate", "children(%d) lists an id twice: %s" % (c, ch)))
            if set(ch) != set(f.children(c)):
                problems.append(("children-mismatch", "children(%d) = %s but the crates whose parent() is %d are %s" %
                                 (c, sorted(ch), c, sorted(f.children(c)))))
        de = o["descendants"]
        if is_exc(de):
            problems.append(("descendants-throws", "descendants() of live crate throws %s" % de["exc"]))
        else:
            if len(set(de)) != len(de):
                problems.append(("descendants-duplicate", "descendants(%d) lists an id twice: %s" % (c, de)))
            if set(de) != set(f.descendants(c)):
                problems.append(("descendants-mismatch", "descendants(%d) = %s but the transitive closure of children is %s" %
                                 (c, sorted(de), sorted(f.descendants(c)))))
        for nh, got in o["sub_crate_by_name"].items():
            match = [x for x in f.children(c) if f.name[x] == nh]
            if is_exc(got):
                problems.append(("sub_crate_by_name-throws", "sub_crate_by_name throws %s" % got["exc"]))
            elif (got is None) != (not match) or (got is not None and got not in match):
                problems.append(("sub_crate_by_name-mismatch", "sub_crate_by_name(%d, %r) = %s but matching children are %s" %
                                 (c, bytes.fromhex(nh), got, match)))
    for k, got in db["crate_by_id"].items():
        i = int(k)
        if is_exc(got):
            problems.append(("crate_by_id-throws", "crate_by_id(%d) throws %s" % (i, got["exc"])))
        elif (got is not None) != (i in live) or (got is not None and got != i):
            problems.append(("crate_by_id-mismatch", "crate_by_id(%d) = %s but live crates are %s" % (i, got, sorted(live))))
    for nh, got in db["crates_by_name"].items():
        match = sorted(x for x in live if f.name[x] == nh)
        if is_exc(got):
            problems.append(("crates_by_name-throws", "crates_by_name throws %s" % got["exc"]))
        elif sorted(got) != match:
            problems.append(("crates_by_name-mismatch", "crates_by_name(%r) = %s but crates with that name are %s" %
                             (bytes.fromhex(nh), sorted(got), match)))
    for nh, got in db["root_crate_by_name"].items():
        match = [x for x in f.roots() if f.name[x] == nh]
        if is_exc(got):
            problems.append(("root_crate_by_name-throws", "root_crate_by_name throws %s" % got["exc"]))
        elif (got is None) != (not match) or (got is not None and got not in match):
            problems.append(("root_crate_by_name-mismatch", "root_crate_by_name(%r) = %s but matching roots are %s" %
                             (bytes.fromhex(nh), got, match)))
    return f, problems


# ---------------------------------------------------------------- generator
class GenState:
    """What the generator believes about the library while it plans ops."""

    def __init__(self, schema):
        self.schema = schema
        self.v2 = is_v2(schema)
        self.crates = {}     # handle -> dict(name, parent(handle|None), alive)
        self.tracks = {}     # handle -> alive
        self.members = set()  # (crate handle, track handle)
        self.nc = 0
        self.nt = 0
        self.used_paths = set()

    def live_crates(self):
        return [h for h, c in self.crates.items() if c["alive"]]

    def live_tracks(self):
        return [h for h, a in self.tracks.items() if a]

    def children(self, h):
        return [x for x, c in self.crates.items() if c["alive"] and c["parent"] == h]

    def descendants(self, h):
        out, stack = [], self.children(h)
        while stack:
            x = stack.pop()
            out.append(x)
            stack.extend(self.children(x))
        return out

    def depth(self, h):
        d = 0
        while self.crates[h]["parent"] is not None:
            h = self.crates[h]["parent"]
            d += 1
        return d

    def sibling_names(self, parent):
        return {c["name"] for x, c in self.crates.items() if c["alive"] and c["parent"] == parent}


def gen_crate_op(rng, st, allow_after=True, hostile=True):
    """One crate operation, steered toward depth >= 3, non-last siblings, subtrees, cycles."""
    live = st.live_crates()
    r = rng.random()
    meta = {}
    if not live or r < 0.30:
        # create
        invalid = hostile and rng.random() < 0.08
        name = rng.choice(INVALID_NAMES if invalid else VALID_NAMES)
        parent = None
        if live and rng.random() < 0.7:
            # prefer deep parents
            parent = max(rng.sample(live, min(len(live), 3)), key=st.depth) if rng.random() < 0.6 else rng.choice(live)
        h = "c%d" % st.nc
        st.nc += 1
        dup = name in st.sibling_names(parent)
        after = None
        sibs = st.children(parent) if parent else [x for x in live if st.crates[x]["parent"] is None]
        if allow_after and sibs and rng.random() < 0.4:
            after = rng.choice(sibs) if (not hostile or rng.random() < 0.92) else rng.choice(live)
        if parent is None:
            op = {"op": "create_root_crate_after", "name": hx(name), "after": after, "as": h} if after else \
                 {"op": "create_root_crate", "name": hx(name), "as": h}
        else:
            op = {"op": "create_sub_crate_after", "c": parent, "name": hx(name), "after": after, "as": h} if after else \
                 {"op": "create_sub_crate", "c": parent, "name": hx(name), "as": h}
        if st.v2 and not invalid and not dup and after is None and rng.random() < 0.15:
            # a crate row as another writer (Engine DJ) leaves it: not (yet) persisted, not exported
            op = {"op": "foreign_crate", "name": hx(name), "c": parent, "persisted": rng.random() < 0.3, "exported": rng.random() < 0.5, "as": h}
        wrong_after = after is not None and st.crates[after]["parent"] != parent
        will_fail = invalid or (st.v2 and (dup or wrong_after))
        if not will_fail:
            st.crates[h] = {"name": name, "parent": parent, "alive": True}
        meta = {"kind": "create", "h": h, "parent": parent, "name": hx(name), "after": after}
        return op, meta
    if r < 0.45:
        c = rng.choice(live)
        invalid = hostile and rng.random() < 0.12
        name = rng.choice(INVALID_NAMES if invalid else VALID_NAMES)
        # favour renaming above grandchildren
        deep = [x for x in live if len(st.descendants(x)) >= 2]
        if deep and rng.random() < 0.5:
            c = rng.choice(deep)
        dup = name in (st.sibling_names(st.crates[c]["parent"]) - {st.crates[c]["name"]})
        if not (invalid or (st.v2 and dup)):
            st.crates[c]["name"] = name
        return {"op": "set_name", "c": c, "name": hx(name)}, {"kind": "set_name", "h": c, "name": hx(name)}
    if r < 0.75:
        c = rng.choice(live)
        with_kids = [x for x in live if st.children(x)]
        nonlast = [x for x in live if len(st.children(st.crates[x]["parent"]) if st.crates[x]["parent"] else
                                         [y for y in live if st.crates[y]["parent"] is None]) >= 2]
        pick = rng.random()
        if with_kids and pick < 0.4:
            c = rng.choice(with_kids)
        elif nonlast and pick < 0.8:
            c = rng.choice(nonlast)
        desc = st.descendants(c)
        q = rng.random()
        if hostile and q < 0.15 and desc:
            p = rng.choice(desc)       # would create a cycle
        elif hostile and q < 0.2:
            p = c                      # self
        elif q < 0.4:
            p = None
        else:
            cand = [x for x in live if x != c and x not in desc]
            p = rng.choice(cand) if cand else None
        cyc = p is not None and (p == c or p in desc)
        dup = st.crates[c]["name"] in (st.sibling_names(p) - ({st.crates[c]["name"]} if st.crates[c]["parent"] == p else set()))
        if not cyc and not (st.v2 and dup):
            st.crates[c]["parent"] = p
        return {"op": "set_parent", "c": c, "parent": p}, {"kind": "set_parent", "h": c, "parent": p}
    # remove
    c = rng.choice(live)
    with_sub = [x for x in live if len(st.descendants(x)) >= 1]
    if with_sub and rng.random() < 0.5:
        c = rng.choice(with_sub)
    for d in st.descendants(c) + [c]:
        st.crates[d]["alive"] = False
        st.members = {(a, b) for a, b in st.members if a != d}
    return {"op": "remove_crate", "c": c}, {"kind": "remove_crate", "h": c}


def gen_track_create(rng, st, rich=False):
    h = "t%d" % st.nt
    st.nt += 1
    if rich:
        s = GS.gen_snapshot(rng, st.schema, rich=True, hostile_sentinels=False)
        s.setdefault("sample_rate", GS.dbits(44100.0))
        s.setdefault("sample_count", rng.randrange(10 ** 5, 10 ** 8))
    else:
        s = {"relative_path": GS.rpath(rng, st.used_paths), "title": hx("title %s" % h)}
    st.tracks[h] = True
    return {"op": "create_track", "as": h, "snap": s}, {"kind": "create_track", "h": h}


def gen_foreign_reorder(rng, st):
    """2.x: a foreign writer (Engine DJ, when the user drags the last item to the top) re-links a chain."""
    lc = st.live_crates()
    if not lc:
        return None, None
    if rng.random() < 0.6:
        full = [c for c in lc if sum(1 for a, b in st.members if a == c and st.tracks.get(b)) >= 2]
        c = rng.choice(full or lc)
        return {"op": "foreign_reorder", "c": c}, {"kind": "foreign_reorder_entries", "c": c}
    p = rng.choice(lc + [None])
    return {"op": "foreign_reorder", "siblings_of": p}, {"kind": "foreign_reorder_siblings", "parent": p}


def gen_membership_op(rng, st):
    lc, lt = st.live_crates(), st.live_tracks()
    r = rng.random()
    if not lt or (r < 0.12 and len(st.tracks) < 12):
        return gen_track_create(rng, st)
    if not lc:
        return None, None
    if r < 0.55:
        c, t = rng.choice(lc), rng.choice(lt)
        if rng.random() < 0.25 and st.members:
            c, t = rng.choice(sorted(st.members))  # re-add
            if not (st.crates[c]["alive"] and st.tracks[t]):
                c, t = rng.choice(lc), rng.choice(lt)
        elif rng.random() < 0.3 and st.members:
            # the same track filed under a crate and under a crate above or below it (a genre and its sub-genre)
            c0, t0 = rng.choice(sorted(st.members))
            if st.crates[c0]["alive"] and st.tracks[t0]:
                rel = st.descendants(c0) + ([st.crates[c0]["parent"]] if st.crates[c0]["parent"] is not None else [])
                rel = [x for x in rel if st.crates[x]["alive"]]
                if rel:
                    c, t = rng.choice(rel), t0
        st.members.add((c, t))
        # both overloads: add_track(track) and add_track(int64_t id)
        return {"op": "add_track" if rng.random() < 0.7 else "add_track_via_id", "c": c, "t": t}, {"kind": "add_track", "c": c, "t": t}
    if r < 0.78:
        c, t = rng.choice(lc), rng.choice(lt)
        if st.members and rng.random() < 0.7:
            c, t = rng.choice(sorted(st.members))
            # preferably an entry whose track is also in a crate below (removing it from the upper crate only)
            shared = [(a, b) for a, b in sorted(st.members) if st.crates[a]["alive"] and any((d, b) in st.members for d in st.descendants(a))]
            if shared and rng.random() < 0.4:
                c, t = rng.choice(shared)
        st.members.discard((c, t))
        return {"op": "remove_track_from", "c": c, "t": t}, {"kind": "remove_track_from", "c": c, "t": t}
    if r < 0.86:
        c = rng.choice(lc)
        st.members = {(a, b) for a, b in st.members if a != c}
        return {"op": "clear_tracks", "c": c}, {"kind": "clear_tracks", "c": c}
    t = rng.choice(lt)
    st.tracks[t] = False
    st.members = {(a, b) for a, b in st.members if b != t}
    return {"op": "remove_track", "t": t}, {"kind": "remove_track", "t": t}
