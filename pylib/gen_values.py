"""Generators of logical blob values (and foreign blobs) for the codec checks."""
import struct

from .engine_codec import dbits, undbits, MINUS1

INT32_EDGES = [0, 1, -1, 2, 255, 256, 65535, 2 ** 31 - 1, -2 ** 31, 2 ** 31 - 2, -2 ** 31 + 1, 23, 24]
INT64_EDGES = [0, 1, -1, 2 ** 31, 2 ** 32, 2 ** 53, 2 ** 62, 2 ** 63 - 1, -2 ** 63, -2 ** 31 - 1, 44100 * 300]

DOUBLE_SPECIALS = [
    "0000000000000000", "8000000000000000",  # +-0
    "0000000000000001", "800fffffffffffff",  # denormals
    "7ff0000000000000", "fff0000000000000",  # +-inf
    "7ff8000000000000", "7ff0000000000001", "fff8dead0000beef", "7fffffffffffffff",  # NaNs with payloads
    "7fefffffffffffff", "ffefffffffffffff",  # +-max
    "0010000000000000",  # min normal
    "3ff0000000000000", "bff0000000000000",  # +-1
    "40e5888000000000",  # 44100
    "4340000000000000",  # 2^53
]


def rdouble(rng, allow_special=True, avoid=()):
    while True:
        r = rng.random()
        if allow_special and r < 0.25:
            h = rng.choice(DOUBLE_SPECIALS)
        elif r < 0.5:
            h = dbits(float(rng.randrange(-10 ** 7, 10 ** 7)))
        elif r < 0.8:
            h = dbits(rng.uniform(-1e7, 1e7))
        elif r < 0.9:
            h = dbits(rng.uniform(-1e15, 1e15))
        else:
            h = "%016x" % rng.getrandbits(64) if allow_special else dbits(rng.uniform(0, 1))
        if h not in avoid:
            return h


def finite_double(rng, lo=-1e9, hi=1e9):
    r = rng.random()
    if r < 0.3:
        return dbits(float(rng.randrange(int(lo), int(hi))))
    return dbits(rng.uniform(lo, hi))


def rlabel(rng, maxlen=255, minlen=0):
    r = rng.random()
    if r < 0.15:
        n = minlen
    elif r < 0.25:
        n = rng.choice([1, 2, 254, 255, maxlen])
    elif r < 0.85:
        n = rng.randrange(minlen, 20)
    else:
        n = rng.randrange(minlen, maxlen + 1)
    n = max(minlen, min(n, maxlen))
    mode = rng.random()
    if mode < 0.4:
        b = bytes(rng.choice(b"abcdefghijklmnopqrstuvwxyz ABC0123") for _ in range(n))
    elif mode < 0.6:
        s = "".join(rng.choice(["é", "日", "本", "ü", "𝄞", "a", " "]) for _ in range(n))
        b = s.encode()[:n]
    else:
        b = bytes(rng.randrange(256) for _ in range(n))
    return b.hex()


def rcolor(rng):
    r = rng.random()
    if r < 0.2:
        return rng.choice([[0, 0, 0, 0], [255, 255, 255, 255], [255, 0, 0, 0], [0, 255, 0, 0], [0, 0, 255, 0],
                           [0, 0, 0, 255], [1, 2, 3, 4], [0xEA, 0xC5, 0x32, 0xFF]])
    return [rng.randrange(256) for _ in range(4)]


def rint32(rng):
    return rng.choice(INT32_EDGES) if rng.random() < 0.4 else rng.randrange(-2 ** 31, 2 ** 31)


def rint64(rng):
    return rng.choice(INT64_EDGES) if rng.random() < 0.4 else rng.randrange(-2 ** 63, 2 ** 63)


def rcount(rng, small=12, big=None):
    r = rng.random()
    if r < 0.1:
        return 0
    if r < 0.2:
        return 1
    if r < 0.3:
        return 8
    if big and r > 0.97:
        return rng.choice(big)
    return rng.randrange(0, small + 1)


def rextra(rng):
    r = rng.random()
    if r < 0.5:
        return ""
    if r < 0.7:
        return "00" * 9
    if r > 0.97:
        # long trailing data (a future format revision, or a foreign writer's padding)
        return rng.randbytes(rng.choice([255, 256, 257, 4096, 16384 - 27, 16384, 65536])).hex()
    return bytes(rng.randrange(256) for _ in range(rng.randrange(1, 65))).hex()


def rwave6(rng, n):
    mode = rng.random()
    if mode < 0.3:
        return bytes(rng.randrange(256) for _ in range(6 * n)).hex()
    if mode < 0.5:
        return (bytes([rng.randrange(256)]) * (6 * n)).hex()
    return bytes((i * 7 + rng.randrange(3)) & 255 for i in range(6 * n)).hex()


def rwave_n(rng, big=False):
    r = rng.random()
    if r < 0.15:
        return 0
    if r < 0.3:
        return 1
    if r < 0.4:
        return 1024
    if big and r > 0.9:
        return rng.choice([5461, 16384, 16385, 100000, 255, 256, 257, 4095, 4096, 8187, 16379, 32768, 65535, 65536, 65537])
    return rng.randrange(0, 200)


# ------------------------------------------------------------------ schema 2.x
def v2_track_data(rng, with_extra=True):
    return {"sample_rate": rdouble(rng), "samples": rint64(rng), "key": rint32(rng),
            "ll": rdouble(rng), "lm": rdouble(rng), "lh": rdouble(rng),
            "extra": rextra(rng) if with_extra else ""}


def v2_grid(rng, big=False):
    n = rcount(rng, 12, [64, 5000, 32768, 32769, 40000, 127, 128, 255, 256, 257, 1023, 1024, 4096, 16384, 32767] if big else None)
    return [[rdouble(rng), rint64(rng), rint32(rng), rint32(rng)] for _ in range(n)]


def v2_beat_data(rng, big=False):
    return {"sample_rate": rdouble(rng), "samples": rdouble(rng), "is_set": rng.choice([0, 1, 1, 2, 255]),
            "default": v2_grid(rng, big), "adjusted": v2_grid(rng, big), "extra": rextra(rng)}


def v2_quick_cue(rng, maxlabel=255):
    return {"label": rlabel(rng, maxlabel), "off": rdouble(rng), "color": rcolor(rng)}


def v2_quick_cues(rng, maxlabel=255, bool_flag=True):
    n = rcount(rng, 12)
    adj = rdouble(rng)
    return {"cues": [v2_quick_cue(rng, maxlabel) for _ in range(n)], "adjusted": adj,
            "is_adjusted": rng.choice([0, 1]) if bool_flag else rng.choice([0, 1, 2, 7, 255]),
            "default": near(rng, adj) if rng.random() < 0.3 else rdouble(rng), "extra": rextra(rng)}


def v2_loop(rng, maxlabel=255):
    st = rdouble(rng)
    return {"label": rlabel(rng, maxlabel), "start": st, "end": near(rng, st) if rng.random() < 0.25 else rdouble(rng),
            "ss": rng.choice([0, 1, 1, 2, 255]), "es": rng.choice([0, 1, 1, 3, 254]), "color": rcolor(rng)}


def v2_loops(rng, maxlabel=255):
    n = rcount(rng, 12)
    return {"loops": [v2_loop(rng, maxlabel) for _ in range(n)], "extra": rextra(rng)}


def v2_overview(rng, big=False):
    n = rwave_n(rng, big)
    pts = bytes(rng.randrange(256) for _ in range(3 * n)).hex()
    return {"spp": rdouble(rng), "points": pts, "max": [rng.randrange(256) for _ in range(3)], "extra": rextra(rng)}


# ------------------------------------------------------------------ schema 1.x
def opt(rng, f, p_none=0.3):
    return None if rng.random() < p_none else f()


def v1_valid_grid(rng, big=False):
    r = rng.random()
    if r < 0.25:
        return []
    n = 2 if r < 0.5 else rng.randrange(2, 14)
    if big and r > 0.95:
        n = rng.choice([64, 5000, 32768, 127, 128, 255, 256, 257, 1024, 4096, 16384, 32767])
    # (the marker index is a 32-bit int in the public struct: the whole grid has to stay below 2^31)
    idx = rng.choice([-4, 0, -100, 7, rng.randrange(-10 ** 6, 10 ** 6), 2 ** 30, -2 ** 30, 2 ** 31 - 70000 - 5 * n if n > 13 else 2 ** 31 - 70000, -2 ** 31])
    off = rng.uniform(-1e6, 1e6)
    g = []
    for _ in range(n):
        g.append([idx, dbits(off)])
        idx += rng.randrange(1, 2000 if not big else 5)
        off += rng.uniform(1e-3, 1e5)
    return g


def v1_invalid_grid(rng):
    kind = rng.choice(["one", "unsorted-index", "unsorted-offset", "equal-index", "too-many"])
    if kind == "one":
        return [[rng.randrange(-10, 10), finite_double(rng)]], kind
    if kind == "too-many":
        g = [[i, dbits(float(i) * 100.0)] for i in range(rng.choice([32769, 40000]))]
        return g, kind
    g = v1_valid_grid(rng)
    while len(g) < 3:
        g = v1_valid_grid(rng)
    k = rng.randrange(1, len(g))
    if kind == "unsorted-index":
        g[k][0] = g[k - 1][0] - 1
    elif kind == "equal-index":
        g[k][0] = g[k - 1][0]
    else:
        g[k][1] = dbits(undbits(g[k - 1][1]) - 1.0)
    return g, kind


def nonzero_double(rng):
    return rdouble(rng, avoid=("0000000000000000", "8000000000000000"))


def v1_beat_data(rng, big=False):
    return {"sample_rate": opt(rng, lambda: nonzero_double(rng)), "sample_count": opt(rng, lambda: nonzero_double(rng)),
            "default": v1_valid_grid(rng, big), "adjusted": v1_valid_grid(rng, big)}


def v1_high_res(rng, big=False):
    n = rwave_n(rng, big)
    return {"spe": rdouble(rng), "waveform": rwave6(rng, n)}


def v1_overview(rng, big=False, opaque=True):
    n = rwave_n(rng, big)
    w = bytearray(bytes.fromhex(rwave6(rng, n)))
    if opaque:
        for i in range(n):
            w[6 * i + 1] = w[6 * i + 3] = w[6 * i + 5] = 255
    return {"spe": rdouble(rng), "waveform": bytes(w).hex()}


def v1_hot_cue(rng, maxlabel=255, minlabel=1):
    return {"label": rlabel(rng, maxlabel, minlabel), "off": rdouble(rng, avoid=(MINUS1,)), "color": rcolor(rng)}


def v1_loop(rng, maxlabel=255, minlabel=1):
    st = rdouble(rng, avoid=(MINUS1,))
    return {"label": rlabel(rng, maxlabel, minlabel), "start": st, "end": near(rng, st) if rng.random() < 0.25 else rdouble(rng),
            "color": rcolor(rng)}


def v1_loops(rng, n=None):
    if n is None:
        n = rcount(rng, 12)
    return {"loops": [opt(rng, lambda: v1_loop(rng)) for _ in range(n)]}


def near(rng, h, avoid=()):
    """A double that stands in a close relation to the one with bit pattern h: equal, the adjacent double on either side, or
    off by a relative 1e-13 .. 1e-9 (where two related fields - adjusted and default main cue, loop start and end - are
    compared, 'almost equal' is the interesting neighbourhood)."""
    import math
    import struct
    x = struct.unpack(">d", bytes.fromhex(h))[0]
    if x != x or x in (float("inf"), float("-inf")):
        return h
    r = rng.random()
    if r < 0.25:
        y = x
    elif r < 0.55:
        y = math.nextafter(x, math.inf if rng.random() < 0.5 else -math.inf)
    else:
        y = x * (1.0 + rng.choice([-1, 1]) * rng.choice([1e-13, 1e-12, 1e-10, 4e-10, 9e-10, 1.1e-9]))
    out = dbits(y)
    return h if out in avoid else out


def v1_quick_cues(rng, n=8):
    adj = rdouble(rng)
    return {"cues": [opt(rng, lambda: v1_hot_cue(rng)) for _ in range(n)], "adjusted": adj,
            "default": near(rng, adj) if rng.random() < 0.3 else rdouble(rng)}


def v1_track_data(rng):
    return {"sample_rate": opt(rng, lambda: nonzero_double(rng)),
            "sample_count": opt(rng, lambda: rng.choice([x for x in INT64_EDGES if x != 0] + [rng.randrange(1, 2 ** 40)])),
            "average_loudness": opt(rng, lambda: nonzero_double(rng)),
            "key": opt(rng, lambda: rng.randrange(1, 24))}


ENCODABLE = {
    "v2_track_data": v2_track_data, "v2_beat_data": v2_beat_data, "v2_quick_cues": v2_quick_cues,
    "v2_loops": v2_loops, "v2_overview": v2_overview,
    "v1_beat_data": v1_beat_data, "v1_high_res": v1_high_res, "v1_loops": v1_loops,
    "v1_overview": v1_overview, "v1_quick_cues": v1_quick_cues, "v1_track_data": v1_track_data,
}


def value_is_nontrivial(kind, v):
    """>=1 list entry, or a non-zero double outside {0, 1}."""
    for key in ("cues", "loops", "default", "adjusted"):
        if isinstance(v.get(key), list) and len(v[key]) > 0:
            return True
    for key in ("points", "waveform"):
        if v.get(key):
            return True
    for key, val in v.items():
        if isinstance(val, str) and len(val) == 16 and key not in ("points", "waveform", "extra"):
            try:
                x = undbits(val)
                if x == x and x not in (0.0, 1.0):
                    return True
            except Exception:
                pass
    return False
