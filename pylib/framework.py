"""Verdict bookkeeping shared by all checks: violation keys, known findings,
replay files, evidence files, exit codes."""
import hashlib
import json
import os
import random
import sys
import time

VERIF = os.path.dirname(os.path.dirname(os.path.abspath(__file__)))
KNOWN = os.path.join(VERIF, "known_findings.txt")
# Runs against a scratch tree (seeded changes) write their replay and evidence files elsewhere, so that the
# committed evidence always describes /repo itself.
OUT = os.environ.get("VERIF_OUT") or VERIF

ALL_SCHEMAS = ["1.6.0", "1.7.1", "1.9.1", "1.11.1", "1.13.0", "1.13.1", "1.13.2", "1.15.0",
               "1.17.0", "1.18.0 (Desktop)", "1.18.0 (OS)", "2.18.0", "2.20.1", "2.20.2",
               "2.20.3", "2.21.0", "2.21.1", "2.21.2"]
V1_SCHEMAS = ALL_SCHEMAS[:11]
V2_SCHEMAS = ALL_SCHEMAS[11:]


def is_v2(schema):
    return schema.startswith("2.")


def schema_tuple(schema):
    return tuple(int(x) for x in schema.split(" ")[0].split("."))


def family(schema):
    """Schema family used in violation keys."""
    return "v2" if is_v2(schema) else "v1"


def case_hash(obj):
    return hashlib.sha256(json.dumps(obj, sort_keys=True, separators=(",", ":")).encode()).hexdigest()[:16]


class HarnessFailure(Exception):
    pass


def load_known():
    findings, fixed = {}, []
    if os.path.exists(KNOWN):
        for ln in open(KNOWN):
            ln = ln.strip()
            if not ln or ln.startswith("#"):
                continue
            if ln.startswith("finding:"):
                body = ln[len("finding:"):].strip()
                head, _, desc = body.partition("::")
                parts = head.split()
                pid = None
                key = None
                for i, p in enumerate(parts):
                    if p.startswith("property="):
                        pid = p[len("property="):]
                    if p.startswith("key="):
                        key = " ".join([p[len("key="):]] + parts[i + 1:])
                        break
                if pid and key:
                    findings[(pid, key.strip())] = desc.strip()
            elif ln.startswith("fixed:"):
                fixed.append(ln)
    return findings, fixed


class Ctx:
    def __init__(self, pid, level, tier, seed, rule):
        self.pid = pid
        self.level = level
        self.tier = tier
        self.seed = seed
        self.rule = rule
        self.rng = random.Random(seed * 1000003 + sum(ord(c) for c in pid))
        self.t0 = time.time()
        self.evaluations = 0
        self.nontrivial = set()
        self.samples = []
        self.extra = {}
        self.viol = {}          # key -> dict(count, what, replay)
        self.inconclusive = []  # harness-level problems
        self.assumptions = []
        self.exhaustive = None
        self.replay_only = False
        self.max_samples = 4

    # ---- coverage
    def count(self, n=1):
        self.evaluations += n

    def nontriv(self, obj):
        self.nontrivial.add(obj if isinstance(obj, str) else case_hash(obj))

    def sample(self, obj):
        if len(self.samples) < self.max_samples:
            self.samples.append(obj)

    def bump(self, name, n=1):
        self.extra[name] = self.extra.get(name, 0) + n

    def bump_in(self, name, key, n=1):
        d = self.extra.setdefault(name, {})
        d[key] = d.get(key, 0) + n

    def state(self, name, obj):
        """Counts distinct observed states (by canonical hash) under coverage[name]."""
        st = self.__dict__.setdefault("_states", {}).setdefault(name, set())
        st.add(obj if isinstance(obj, str) else case_hash(obj))
        self.extra[name] = len(st)

    def add_to(self, name, value):
        s = self.extra.setdefault(name, [])
        if value not in s:
            s.append(value)

    # ---- verdicts
    def violation(self, key, what, replay=None):
        """Record a violation under a stable key; the first witness is kept."""
        v = self.viol.get(key)
        if v is None:
            self.viol[key] = {"count": 1, "what": what, "replay": replay}
        else:
            v["count"] += 1
            # prefer smaller witnesses
            if replay is not None and v["replay"] is not None:
                if len(json.dumps(replay)) < len(json.dumps(v["replay"])):
                    v["replay"] = replay
                    v["what"] = what

    def _nt(self):
        o = getattr(self, "_nontrivial_override", None)
        return int(o) if o else len(self.nontrivial)

    def fail_harness(self, msg):
        self.inconclusive.append(msg)

    # ---- finish
    def _write_replay(self, key, v):
        d = os.path.join(OUT, "replays", self.pid)
        os.makedirs(d, exist_ok=True)
        path = os.path.join(d, hashlib.sha256(key.encode()).hexdigest()[:12] + ".json")
        doc = {"property": self.pid, "key": key, "what": v["what"], "seed": self.seed,
               "tier": self.tier, "replay": v["replay"]}
        with open(path, "w") as f:
            json.dump(doc, f, indent=1, sort_keys=True)
        return path

    def finish(self):
        findings, _fixed = load_known()
        known_hit, unknown = [], []
        for key, v in sorted(self.viol.items()):
            if (self.pid, key) in findings:
                known_hit.append((key, v, findings[(self.pid, key)]))
            else:
                unknown.append((key, v))
        lines = []
        for key, v, desc in known_hit:
            self._write_replay(key, v)
            lines.append(f"KNOWN-FINDING: property={self.pid} key={key} :: {desc} (seen {v['count']}x)")
        for key, v in unknown:
            path = self._write_replay(key, v)
            lines.append(f"VIOLATION property={self.pid} replay={path} key={key} :: {v['what']} (seen {v['count']}x)")
        wall = time.time() - self.t0
        cov = {
            "evaluations": int(self.evaluations),
            "distinct_nontrivial": self._nt(),
            "rule": self.rule,
            "samples": self.samples if self.samples else [],
            "known_findings_hit": [k for k, _, _ in known_hit],
            "violation_keys": [k for k, _ in unknown],
            "inconclusive": self.inconclusive[:20],
        }
        if self.exhaustive is not None:
            cov["exhaustive"] = bool(self.exhaustive)
        for k, val in self.extra.items():
            cov[k] = val
        try:
            from . import runner as _runner
            if _runner.ENV_STATS:
                cov["process_environment"] = dict(_runner.ENV_STATS)
        except Exception:
            pass
        ev = {
            "property_id": self.pid,
            "tier": self.tier,
            "seed": int(self.seed),
            "level": self.level,
            "coverage": cov,
            "assumptions": self.assumptions,
            "wall_s": round(wall, 2),
            "violations": len(unknown),
        }
        if not self.replay_only:
            os.makedirs(os.path.join(OUT, "evidence"), exist_ok=True)
            tmp = os.path.join(OUT, "evidence", self.pid + ".json.tmp")
            with open(tmp, "w") as f:
                json.dump(ev, f, indent=1, sort_keys=True, default=str)
            os.replace(tmp, os.path.join(OUT, "evidence", self.pid + ".json"))
        for ln in lines:
            print(ln)
        summary = (f"[{self.pid}] tier={self.tier} seed={self.seed} evaluations={self.evaluations} "
                   f"nontrivial={self._nt()} known={len(known_hit)} violations={len(unknown)} "
                   f"inconclusive={len(self.inconclusive)} wall={wall:.1f}s")
        print(summary)
        sys.stdout.flush()
        if unknown:
            return 1
        if self.inconclusive:
            for m in self.inconclusive[:10]:
                print(f"INCONCLUSIVE property={self.pid}: {m}")
            return 2
        if not self.replay_only and (self.evaluations < 1 or self._nt() < 2):
            print(f"INCONCLUSIVE property={self.pid}: observed too little "
                  f"(evaluations={self.evaluations}, nontrivial={self._nt()})")
            return 2
        return 0


def crash_key(rule_prefix, crash, opname=None, extra=None):
    """Stable key for a process death: kind + op + innermost library function."""
    parts = [rule_prefix, crash["kind"]]
    if opname or crash.get("op"):
        parts.append("op=" + (opname or crash.get("op")))
    if extra:
        parts.append(extra)
    parts.append("at=" + crash.get("site", "?"))
    return " ".join(parts)


# Names for library directories: the characters that are ordinary in file names but special to URIs, SQL, shells or
# path handling.  Libraries live wherever the user keeps music ("hits #1", "what now?", "100%41 percent").
DIR_NAME_POOL = ["{}", "{} #1", "what now? {}", "100%41 {}", "{} with space", "{}.d", "\u00e9{}\u00fc", "{}'s", "{}&x=y", "{};1",
                 "nested/in/{}", "{}" + "x" * 120, "{}%", "{}%zz", "file:{}", "-{}", "{}\\back", "{}*", "[{}]", "~{}", "{}\ttab",
                 "{}\"quoted\"", "{}:memory:", "{}?mode=ro", "{}#", "$HOME {}", "{}  "]


def dir_name(cid, k):
    """k-th decoration of the directory name for case `cid` (k = 0: plain)."""
    return DIR_NAME_POOL[k % len(DIR_NAME_POOL)].format(cid)


def held_handles(ctx, obs, fam, schema, wit, where=""):
    """Every observe_all compares the handles the case has been holding with handles obtained just now (tracks and
    crates); a disagreement is a stale handle.  Returns True when a violation was recorded."""
    if not isinstance(obs, dict):
        return False
    ctx.bump("held_handle_comparisons", (obs.get("held_handles_compared") or 0) + (obs.get("held_crate_handles_compared") or 0))
    for key, what in (("held_handles_disagree", "track"), ("held_crate_handles_disagree", "crate")):
        dis = obs.get(key)
        if dis:
            ctx.violation(f"held-handle-stale {fam} {what} {','.join(map(str, dis[0].get('fields', [])[:3]))}",
                          f"{schema}: a {what} handle held since an earlier step answers differently from one obtained now{where}: {dis[:2]}", wit)
            return True
    return False
