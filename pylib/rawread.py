"""Independent reader of the stored SQLite tables (as dumped by the executor's `rawdump` op with
plain SELECTs) - judges whether the database is a well-formed Engine library without going through
any library code."""
from . import engine_codec as EC


def val(v):
    """Raw column value -> python: int, float-bits dict, bytes for text/blob, None."""
    if isinstance(v, dict):
        if "t" in v:
            return bytes.fromhex(v["t"])
        if "b" in v:
            return bytes.fromhex(v["b"])
        if "r" in v:
            return ("real", v["r"])
    return v


def table(dump, name):
    """Rows of the table/view `name` in whichever attached database has it: list of dicts."""
    for dbn, d in dump.items():
        t = (d.get("tables") or {}).get(name)
        if t is not None:
            cols = t["cols"]
            return [dict(zip(cols, [val(x) for x in r])) for r in t["rows"]]
    return None


def check_pragmas(dump):
    out = []
    for dbn, d in dump.items():
        ic = d.get("integrity_check")
        if ic is not None:
            flat = [val(r[0]) for r in ic]
            if flat != [b"ok"]:
                out.append(("integrity_check", "PRAGMA %s.integrity_check = %s" % (dbn, flat[:3])))
        fk = d.get("foreign_key_check")
        if fk:
            out.append(("foreign_key_check", "PRAGMA %s.foreign_key_check reports %d row(s), first %s" % (dbn, len(fk), [val(x) for x in fk[0]])))
    return out


V1_BLOBS = {"trackData": "v1_track_data", "highResolutionWaveFormData": "v1_high_res", "overviewWaveFormData": "v1_overview",
            "beatData": "v1_beat_data", "quickCues": "v1_quick_cues", "loops": "v1_loops"}
V2_BLOBS = {"trackData": "v2_track_data", "overviewWaveFormData": "v2_overview", "beatData": "v2_beat_data",
            "quickCues": "v2_quick_cues", "loops": "v2_loops"}


def check_blobs(dump, v2):
    out = []
    n = 0
    if v2:
        rows = table(dump, "Track") or []
        kinds = V2_BLOBS
    else:
        rows = table(dump, "PerformanceData") or []
        kinds = V1_BLOBS
    for r in rows:
        for col, kind in kinds.items():
            b = r.get(col)
            if b is None:
                continue
            if not isinstance(b, (bytes, bytearray)):
                out.append(("blob-not-bytes " + col, "%s of row %s is not a blob" % (col, r.get("id"))))
                continue
            if len(b) == 0 and kind not in ("v1_loops", "v2_loops"):
                n += 1
                continue  # empty container = no data
            try:
                EC.DEC[kind](b)
                n += 1
            except Exception as e:  # noqa: BLE001
                out.append(("blob-undecodable " + col, "%s of row %s does not decode under the independent codec: %s" % (col, r.get("id"), e)))
    return out, n


def check_v1_crates(dump):
    """Crate.path, CrateParentList and CrateHierarchy must describe the same forest; title = last path segment."""
    out = []
    crates = table(dump, "Crate")
    cpl = table(dump, "CrateParentList")
    ch = table(dump, "CrateHierarchy")
    if crates is None or cpl is None or ch is None:
        return [("crate-tables-missing", "Crate / CrateParentList / CrateHierarchy not readable")], 0
    ids = [c["id"] for c in crates]
    if len(set(ids)) != len(ids):
        out.append(("crate-id-duplicate", "Crate has duplicate ids %s" % ids))
    idset = set(ids)
    title = {c["id"]: c["title"] for c in crates}
    path = {c["id"]: c["path"] for c in crates}
    # forest from the parent list
    parent = {}
    for r in cpl:
        o, p = r["crateOriginId"], r["crateParentId"]
        if o not in idset:
            out.append(("parentlist-dangling", "CrateParentList names crate %s which is not in Crate" % o))
            continue
        if p not in idset:
            out.append(("parentlist-dangling", "CrateParentList gives crate %s the parent %s which is not in Crate" % (o, p)))
            continue
        if o in parent:
            out.append(("parentlist-duplicate", "CrateParentList has two rows for crate %s" % o))
        parent[o] = None if p == o else p
    for c in idset:
        if c not in parent:
            out.append(("parentlist-missing", "crate %s has no CrateParentList row" % c))
    if out:
        return out, len(ids)
    # closure from the parent list
    def ancestors(c):
        res, seen = [], set()
        x = parent.get(c)
        while x is not None and x not in seen:
            seen.add(x)
            res.append(x)
            x = parent.get(x)
        return res
    want_h = set()
    for c in idset:
        for a in ancestors(c):
            want_h.add((a, c))
    got_h = [(r["crateId"], r["crateIdChild"]) for r in ch]
    if len(set(got_h)) != len(got_h):
        out.append(("hierarchy-duplicate", "CrateHierarchy repeats a row"))
    if set(got_h) != want_h:
        out.append(("hierarchy-mismatch", "CrateHierarchy = %s but the parent list implies %s" %
                    (sorted(set(got_h) - want_h)[:4] + ["missing:"] + sorted(want_h - set(got_h))[:4], "")))
    # paths
    for c in idset:
        chain = list(reversed(ancestors(c))) + [c]
        want = b"".join((title[x] or b"") + b";" for x in chain)
        if path[c] != want:
            out.append(("path-mismatch", "Crate %s has path %r but the parent list and titles imply %r" % (c, path[c], want)))
        p = path[c] or b""
        segs = p.split(b";")
        last = segs[-2] if len(segs) >= 2 else None
        if last != title[c]:
            out.append(("title-not-last-path-segment", "Crate %s has title %r but its path is %r" % (c, title[c], path[c])))
    return out, len(ids)


def _chain_ok(rows, key_id, key_next, what):
    """rows form exactly one acyclic list ending in next == 0 that covers all rows."""
    out = []
    if not rows:
        return out
    ids = [r[key_id] for r in rows]
    nxt = {r[key_id]: r[key_next] for r in rows}
    tails = [i for i in ids if nxt[i] == 0]
    if len(tails) != 1:
        out.append((what + "-tail-count", "%d rows have next = 0 among ids %s (next: %s)" % (len(tails), ids, nxt)))
        return out
    pointed = {}
    for i in ids:
        n = nxt[i]
        if n != 0:
            if n not in nxt:
                out.append((what + "-dangling-next", "row %s points to %s, which is not in the same list (%s)" % (i, n, ids)))
            if n in pointed:
                out.append((what + "-two-predecessors", "rows %s and %s both point to %s" % (pointed[n], i, n)))
            pointed[n] = i
    if out:
        return out
    # walk backwards from the tail
    seen = set()
    x = tails[0]
    while x is not None and x not in seen:
        seen.add(x)
        x = pointed.get(x)
    if seen != set(ids):
        out.append((what + "-not-covering", "the chain from the tail reaches %s of %s rows" % (len(seen), len(ids))))
    return out


def check_v2_chains(dump):
    out = []
    pls = table(dump, "Playlist")
    pes = table(dump, "PlaylistEntity")
    if pls is None or pes is None:
        return [("playlist-tables-missing", "Playlist / PlaylistEntity not readable")], 0
    ids = {p["id"] for p in pls}
    by_parent = {}
    for p in pls:
        by_parent.setdefault(p["parentListId"], []).append(p)
        if p["parentListId"] != 0 and p["parentListId"] not in ids:
            out.append(("playlist-parent-dangling", "Playlist %s has parentListId %s which does not exist" % (p["id"], p["parentListId"])))
    for par, rows in by_parent.items():
        out += [(r, "siblings under %s: %s" % (par, m)) for r, m in _chain_ok(rows, "id", "nextListId", "sibling-chain")]
    by_list = {}
    for e in pes:
        by_list.setdefault(e["listId"], []).append(e)
        if e["listId"] not in ids:
            out.append(("entity-list-dangling", "PlaylistEntity %s belongs to list %s which does not exist" % (e["id"], e["listId"])))
    for lid, rows in by_list.items():
        out += [(r, "entities of list %s: %s" % (lid, m)) for r, m in _chain_ok(rows, "id", "nextEntityId", "entity-chain")]
        keys = [(e["trackId"], e["databaseUuid"]) for e in rows]
        if len(set(keys)) != len(keys):
            out.append(("entity-duplicate", "list %s holds the same track twice" % lid))
    # acyclic parent relation
    par = {p["id"]: p["parentListId"] for p in pls}
    for i in ids:
        seen = set()
        x = i
        while x != 0 and x in par and x not in seen:
            seen.add(x)
            x = par[x]
        if x != 0 and x in seen:
            out.append(("playlist-parent-cycle", "Playlist %s is its own ancestor" % i))
    return out, len(pls) + len(pes)


def _basename(p):
    return p.rsplit(b"/", 1)[-1]


def _ext(name):
    return name.rsplit(b".", 1)[1] if b"." in name else None


def check_derived_columns(dump, v2):
    out = []
    tracks = table(dump, "Track") or []
    n = 0
    if v2:
        info = table(dump, "Information") or []
        uuid = info[0]["uuid"] if info else None
        for t in tracks:
            p = t.get("path")
            if p is None:
                continue
            n += 1
            if t.get("filename") != _basename(p):
                out.append(("filename-stale", "Track %s has path %r but filename %r" % (t["id"], p, t.get("filename"))))
            if t.get("fileType") != _ext(_basename(p)):
                out.append(("fileType-stale", "Track %s has path %r but fileType %r" % (t["id"], p, t.get("fileType"))))
            if t.get("originDatabaseUuid") != uuid:
                out.append(("origin-uuid-mismatch", "Track %s has originDatabaseUuid %r but the database uuid is %r" % (t["id"], t.get("originDatabaseUuid"), uuid)))
            if t.get("originTrackId") != t["id"]:
                out.append(("origin-id-mismatch", "Track %s has originTrackId %r" % (t["id"], t.get("originTrackId"))))
    else:
        md = table(dump, "MetaData") or []
        ext = {}
        for r in md:
            if r.get("type") == 13:
                ext[r["id"]] = r.get("text")
        for t in tracks:
            p = t.get("path")
            if p is None:
                continue
            n += 1
            if t.get("filename") != _basename(p):
                out.append(("filename-stale", "Track %s has path %r but filename %r" % (t["id"], p, t.get("filename"))))
            if ext.get(t["id"]) != _ext(_basename(p)):
                out.append(("extension-stale", "Track %s has path %r but extension metadata %r" % (t["id"], p, ext.get(t["id"]))))
    return out, n
