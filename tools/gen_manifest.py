#!/usr/bin/env python3
"""Writes MANIFEST.json from the table below (kept in one place so it stays valid)."""
import json, os, sys
HERE = os.path.dirname(os.path.dirname(os.path.abspath(__file__)))

CHECKS = {}   # pid -> dict(level, text, note, technique, design)
NA = {}       # pid -> reason

def chk(pid, level, text, note, technique, design):
    CHECKS[pid] = dict(level=level, text=text, note=note, technique=technique, design=design)

exec(open(os.path.join(HERE, "tools", "manifest_table.py")).read())

props = [json.loads(l)["id"] for l in open(os.path.join(HERE, "properties.jsonl"))]
man = {
    "version": 1,
    "setup_cmd": "./check setup",
    "hooks": {
        "guard": "XSCO_LIBDJINTEROP_VERIF",
        "enable": "checks compile /repo's sources directly into /verif/.cache/<treehash>/{plain,san}/libdjinterop.a with -DXSCO_LIBDJINTEROP_VERIF=1 (pylib/build.py); no source file reads the guard: all monitors are interposed at the SQLite/zlib/operator-new boundary from the harness executable",
        "baseline_off_cmd": "cmake --build /repo/_build -j16 && ctest --test-dir /repo/_build -j8 --timeout 900",
        "source_commits": [],
        "add_only": True,
    },
    "engines": [
        {"name": "dj_exec", "path": "exec/", "serves_properties": sorted(CHECKS),
         "kind_free_text": "C++ executor linked against the real library (plain and ASan+UBSan builds) with interposed sqlite3_step/sqlite3_open_v2/inflate/operator new monitors; runs JSON operation scripts and logs events"},
        {"name": "oracles", "path": "pylib/", "serves_properties": sorted(CHECKS),
         "kind_free_text": "Python generators, reference models and offline checkers over the recorded event logs; independent Engine blob codec; crash/sanitizer-report attribution"},
    ],
    "checks": [],
    "not_applicable": [],
    "notes": "Technique family: runtime monitoring and sanitizers only. See DESIGN.md.",
}
for pid in props:
    if pid in CHECKS:
        c = CHECKS[pid]
        man["checks"].append({
            "property_id": pid,
            "quick_cmd": f"./check {pid} --tier quick",
            "thorough_cmd": f"./check {pid} --tier thorough",
            "evidence_file": f"/verif/evidence/{pid}.json",
            "replay_cmd_template": f"./check {pid} --replay {{path}}",
            "engine": "dj_exec",
            "level_claimed": {"category": c["level"], "text": c["text"], "design_ref": c["design"]},
            "level_note": c["note"],
            "technique": c["technique"],
        })
    else:
        man["not_applicable"].append({"property_id": pid, "reason": NA.get(pid, "check not yet built in this session; see DESIGN.md section 4 for the planned monitor")})
json.dump(man, open(os.path.join(HERE, "MANIFEST.json"), "w"), indent=1)
print("checks:", [c["property_id"] for c in man["checks"]])
