chk("C19", "exploration",
    "The compiled extents functions are run on boundary-lattice and random (count, rate) points and every clause of the statement (cover, minimality, overview size and exactly-rounded span, emptiness, monotonicity) is judged by an exact-integer oracle. Decides the points executed, not all integers; the 'proved over the integers' half of the quantifier is outside runtime monitoring.",
    "Trusts CPython integer arithmetic and correctly-rounded int/int division as the reference; domain restricted to the statement's (rates 0..2^31, counts 0..2^62).",
    "runtime differential monitoring of the real functions against an exact-arithmetic oracle on boundary and random points",
    "DESIGN.md section 4, C19")
chk("C20", "exploration",
    "normalize_beatgrid is run on generated strictly-increasing grids (dyadic class judged with exact equality, general doubles with a conditioning-aware tolerance) and each postcondition of the statement (first index -4, result is a grid, last marker brackets the end, end-segment tempo kept, interior markers unchanged, idempotence, rejection of un-normalisable grids with invalid_argument) is judged by a Fraction-arithmetic oracle over the returned doubles.",
    "Trusts fractions.Fraction as the exact reference; a marker exactly on offset 0 or exactly on the track end may be read either way (both conventions accepted); inputs whose normalised indices leave +-2^29 are outside the domain.",
    "runtime monitoring of the real function with an exact-rational postcondition oracle over generated grids",
    "DESIGN.md section 4, C20")
chk("C03", "exploration",
    "Each of the eleven codecs encodes and decodes generated values inside an ASan+UBSan+libstdc++-assertions build; the decoded value is compared with the original bit-for-bit, values the format cannot hold must be rejected by the encoder, and any sanitizer report, crash or non-std exception is a violation. Boundary ladders: label 0..300, 0..12 entries, 0/1/2/32768/32769/40000 markers, 0..100000 points.",
    "Values are compared as JSON documents carrying doubles as bit patterns; std::bad_alloc above a 128 MiB single allocation is accepted as rejection; sanitizers see only what the workload reaches.",
    "sanitizer-instrumented execution of encode/decode round trips with an equality oracle on generated and boundary values",
    "DESIGN.md section 4, C03")
chk("C05", "exploration",
    "zlib_uncompress and the eleven decoders are fed ~2 million byte strings per quick run inside an ASan+UBSan+libstdc++-assertions build (exhaustive 0-2 byte inputs raw and as payloads behind a harness-built container, 16-value-alphabet enumerations, every truncation / single-byte substitution / insertion-deletion of valid blobs at container and payload level, ladders on every count field and on the length prefix, 64 KiB inputs, and a 16-job libFuzzer stage over the codec units). Monitors: sanitizer reports, an interposed inflate() that checks the input window against live memory and enforces a 100000-call termination budget, non-std exceptions at the call boundary, process deaths attributed to the exact input via a shared-memory witness.",
    "Red-zone sanitizers miss non-adjacent overflows; inputs live in exactly-sized heap blocks; std::bad_alloc above a 128 MiB single allocation is a legal outcome; clang/libFuzzer sees only the codec translation units.",
    "sanitizer-instrumented execution with interposed zlib monitor over enumerated, systematically mutated and coverage-guided inputs",
    "DESIGN.md section 4, C05")
chk("C01", "exploration",
    "On all 18 schema versions generated snapshots are written with create_track() and update() on the real library and read back; three separately keyed clauses are judged per write: every field equals N(schema, written) (N = the normalisations the statement names), re-writing the read-back snapshot and reading again changes nothing (fixed point), and a write that returned is followed by a snapshot() that returns. Pools: every optional both ways, pairwise-distinct values across same-typed fields, sentinels 0/-1, 0..12 cue/loop slots, labels up to 1000 bytes, strings with NUL/invalid UTF-8/5000 bytes, grids 0..5000 markers, waveforms 0..100000 entries.",
    "Plain -O2 build; rejected writes (any std::exception) are accepted; 2.x waveform judged only by 'every output point occurs in the input in order' plus the fixed point; 1.x tempo policy recorded as known findings with policy-specific keys so any other bpm corruption still alarms.",
    "runtime monitoring of real create/update/snapshot executions against a per-field reference normalisation and a fixed-point oracle",
    "DESIGN.md section 4, C01")
chk("C06", "exploration",
    "Histories of 20-40 single-field setter calls (all 24 setters plus set_hot_cue_at/set_loop_at at every index, clearing calls, storage-coupled pairs favoured) over 2-3 richly populated tracks on all 18 schema versions; after every call the complete public view of every track (25 getters, 16 per-slot getters, file name/extension, snapshot()) is observed and compared with the previous observation updated by N(value) in exactly the targeted field: getter-after-set, getter == snapshot field, no other field of the track, no field of another track. A throwing setter must change nothing and may throw only for an 'absent'-sentinel value.",
    "Plain -O2 build; initial state adopted from the first observation; 2.x waveform getter judged as opaque resampling; indices and waveform preconditions stay in contract (C15 covers the rest).",
    "runtime monitoring of setter histories with a per-track reference model and a frame-condition diff over full observations",
    "DESIGN.md section 4, C06")
chk("C07", "exploration",
    "Crate histories (create root/sub-crate [after], rename, re-parent, remove; valid names plus '' and names with ';'; targets any live crate, none, self or a descendant) run on the real library; after every step every structural query (crates, root_crates, parent, children, descendants, crate_by_id, crates_by_name, root_crate_by_name, sub_crate_by_name for every name in play, is_valid/id of every handle) is observed. Oracle layer 1: all answers must describe the single forest built from crates()+parent(). Layer 2: that forest must equal a reference model that applies exactly the requested change, nothing when the call throws; invalid names and cycle-creating moves must throw. Bounded-exhaustive: every op sequence up to length 2 (quick) / 3 (thorough) over 48 operations on the forest a>b>c,d on one version per storage family; plus model-steered random histories on all 18 versions. Termination by VDBE step budget.",
    "Plain -O2 build; duplicate sibling names and the fate of a removed crate's descendants follow what is observed (statement silent); a call on a removed handle ends the case (out of contract).",
    "runtime monitoring of crate histories: self-consistency checker over observed query results plus reference forest model, bounded-exhaustive and random workloads",
    "DESIGN.md section 4, C07")
chk("C08", "exploration",
    "Histories on all 18 versions first de-synchronise track, crate and membership id spaces, then interleave add_track, crate.remove_track, clear_tracks, database.remove_track, remove_crate, creation and re-creation of tracks and crates (id recycling), re-adds and removes of absent tracks; after every step crate.tracks() of every live crate and, on 1.x, track.containing_crates() of every live track are compared with a reference relation of (crate, track) pairs: exact set, no duplicates, no removed tracks, converse relation, no effect on other pairs, throwing ops change nothing.",
    "Plain -O2 build; order not judged (C09); containing_crates() judged on 1.x only (2.x: not implemented); a call on a removed handle ends the case.",
    "runtime monitoring of membership histories against a reference relation, observed through the public API after every step",
    "DESIGN.md section 4, C08")
chk("C09", "exploration",
    "On the seven 2.x versions, histories of positional and non-positional crate creation, re-parenting, renaming, removal and track add/remove/clear are run; after every step root_crates(), children() of every crate, tracks() of every crate and the table-API listings root_ids(), child_ids(), get_for_list() are compared with ordered reference lists: every sibling/entry exactly once, create-after lands immediately after its anchor, untouched items keep their relative order, entries in insertion order, table listings equal the high-level ones.",
    "Plain -O2 build; placement of an item created without position or moved to a new parent is adopted from the observation (unspecified); no order across parents.",
    "runtime monitoring of ordered listings against ordered reference lists over generated 2.x histories",
    "DESIGN.md section 4, C09")
