chk("C19", "exploration",
    "The compiled extents functions are run on boundary-lattice and random (count, rate) points and every clause of the statement (cover, minimality, overview size and exactly-rounded span, emptiness, monotonicity) is judged by an exact-integer oracle. Decides the points executed, not all integers; the 'proved over the integers' half of the quantifier is outside runtime monitoring.",
    "Trusts CPython integer arithmetic and correctly-rounded int/int division as the reference; domain restricted to the statement's (rates 0..2^31, counts 0..2^62).",
    "runtime differential monitoring of the real functions against an exact-arithmetic oracle on boundary and random points",
    "DESIGN.md section 4, C19")
chk("C20", "exploration",
    "normalize_beatgrid is run on generated strictly-increasing grids (dyadic class judged with exact equality, general doubles with a conditioning-aware tolerance) and each postcondition of the statement (first index -4, result is a grid, last marker brackets the end, end-segment tempo kept, interior markers unchanged, idempotence, rejection of un-normalisable grids with invalid_argument) is judged by a Fraction-arithmetic oracle over the returned doubles.",
    "Trusts fractions.Fraction as the exact reference; a marker exactly on offset 0 or exactly on the track end may be read either way (both conventions accepted); inputs whose normalised indices leave +-2^29 are outside the domain.",
    "runtime monitoring of the real function with an exact-rational postcondition oracle over generated grids",
    "DESIGN.md section 4, C20")
chk("C03", "exploration",
    "Each of the eleven codecs encodes and decodes generated values inside an ASan+UBSan+libstdc++-assertions build; the decoded value is compared with the original bit-for-bit, values the format cannot hold must be rejected by the encoder, and any sanitizer report, crash or non-std exception is a violation. Boundary ladders: label 0..300, 0..12 entries, 0/1/2/32768/32769/40000 markers, 0..100000 points.",
    "Values are compared as JSON documents carrying doubles as bit patterns; std::bad_alloc above a 128 MiB single allocation is accepted as rejection; sanitizers see only what the workload reaches.",
    "sanitizer-instrumented execution of encode/decode round trips with an equality oracle on generated and boundary values",
    "DESIGN.md section 4, C03")
chk("C05", "exploration",
    "zlib_uncompress and the eleven decoders are fed ~2 million byte strings per quick run inside an ASan+UBSan+libstdc++-assertions build (exhaustive 0-2 byte inputs raw and as payloads behind a harness-built container, 16-value-alphabet enumerations, every truncation / single-byte substitution / insertion-deletion of valid blobs at container and payload level, ladders on every count field and on the length prefix, 64 KiB inputs, and a 16-job libFuzzer stage over the codec units). Monitors: sanitizer reports, an interposed inflate() that checks the input window against live memory and enforces a 100000-call termination budget, non-std exceptions at the call boundary, process deaths attributed to the exact input via a shared-memory witness.",
    "Red-zone sanitizers miss non-adjacent overflows; inputs live in exactly-sized heap blocks; std::bad_alloc above a 128 MiB single allocation is a legal outcome; clang/libFuzzer sees only the codec translation units.",
    "sanitizer-instrumented execution with interposed zlib monitor over enumerated, systematically mutated and coverage-guided inputs",
    "DESIGN.md section 4, C05")
