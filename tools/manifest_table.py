chk("C19", "exploration",
    "The compiled extents functions are run on boundary-lattice and random (count, rate) points and every clause of the statement (cover, minimality, overview size and exactly-rounded span, emptiness, monotonicity) is judged by an exact-integer oracle. Decides the points executed, not all integers; the 'proved over the integers' half of the quantifier is outside runtime monitoring.",
    "Trusts CPython integer arithmetic and correctly-rounded int/int division as the reference; domain restricted to the statement's (rates 0..2^31, counts 0..2^62).",
    "runtime differential monitoring of the real functions against an exact-arithmetic oracle on boundary and random points",
    "DESIGN.md section 4, C19")
