#!/usr/bin/env python3
"""seed_detect.py <seed id> [check ids...]: runs tools/seeded.py for the seed (own property's check by default, quick tier) and
records which checks reported it, with their violation keys, in the seed's meta.json (detected_by)."""
import json, os, re, subprocess, sys
HERE = os.path.dirname(os.path.dirname(os.path.abspath(__file__)))
sid = sys.argv[1]
d = os.path.join(HERE, "seeded", sid)
meta = json.load(open(os.path.join(d, "meta.json")))
checks = sys.argv[2:] or [meta["property"]]
p = subprocess.run([sys.executable, os.path.join(HERE, "tools", "seeded.py"), d] + checks, stdout=subprocess.PIPE, stderr=subprocess.STDOUT)
out = p.stdout.decode(errors="replace")
print(out[-3000:])
last = json.load(open("/tmp/seeded_last.json"))
det = [x for x in meta.get("detected_by", []) if x["check"] not in checks]
for c in checks:
    keys = []
    for l in last.get(c, {}).get("lines", []):
        m = re.search(r"key=(.*?) ::", l)
        if m:
            keys.append(m.group(1))
    det.append({"check": c, "keys": "; ".join(keys[:4])})
meta["detected_by"] = det
json.dump(meta, open(os.path.join(d, "meta.json"), "w"), indent=1)
print("DETECT", sid, {x["check"]: bool(x["keys"]) for x in det})
