#!/usr/bin/env python3
"""stage_hunks.py <repo> <file> <regex>: stages only the hunks of <file> whose text matches <regex> (git apply --cached)."""
import re, subprocess, sys
repo, path, rx = sys.argv[1], sys.argv[2], re.compile(sys.argv[3], re.S)
d = subprocess.run(["git", "-C", repo, "diff", "-U" + __import__("os").environ.get("CTX", "3"), "--", path], stdout=subprocess.PIPE, check=True).stdout.decode()
parts = re.split(r"(?m)^(?=@@ )", d)
head, hunks = parts[0], parts[1:]
sel = [h for h in hunks if rx.search(h)]
print("hunks:", len(hunks), "selected:", len(sel))
if not sel:
    sys.exit(1)
patch = head + "".join(sel)
p = subprocess.run(["git", "-C", repo, "apply", "--cached", "--recount", "--unidiff-zero", "-"], input=patch.encode())
sys.exit(p.returncode)
