#!/usr/bin/env python3
"""Validates MANIFEST.json and every evidence file against the given schemas (needs jsonschema: run with python3-vt)."""
import glob, json, sys
import jsonschema
ok = True
def v(path, schema):
    global ok
    try:
        jsonschema.validate(json.load(open(path)), json.load(open(schema)))
        print("ok  ", path)
    except Exception as e:
        ok = False
        print("FAIL", path, str(e)[:300])
v("MANIFEST.json", "/root/.vp/MANIFEST.schema.json")
for p in sorted(glob.glob("evidence/*.json")):
    v(p, "/root/.vp/EVIDENCE.schema.json")
sys.exit(0 if ok else 1)
