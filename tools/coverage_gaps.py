#!/usr/bin/env python3
"""coverage_gaps.py [--run C01 C02 ...] [--report]
Not a registered check.  Measures which library code the checks' own workloads reach.

  --run   runs the quick tier of the named checks (default: all twenty) against a gcov-instrumented build of
          /repo's working tree (VERIF_FORCE_CFG=cov), accumulating counters in /verif/.cache/<tree>/cov/obj;
          evidence and replay files written by those runs are restored afterwards (they are not evidence).
  --report  runs gcov over the accumulated counters and prints, per source file, line coverage and every library
          function that no workload executed; writes tools/coverage_report.json.

A function listed here is a path no monitor has judged (DESIGN.md section 8): either it backs no property, or a
workload has to be widened to drive it.
"""
import json, os, re, subprocess, sys, tempfile
HERE = os.path.dirname(os.path.dirname(os.path.abspath(__file__)))
sys.path.insert(0, HERE)
from pylib import build

ALL = ["C%02d" % i for i in range(1, 21)]


def run(checks):
    env = dict(os.environ, VERIF_FORCE_CFG="cov")
    for c in checks:
        p = subprocess.run([os.path.join(HERE, "check"), c, "--tier", "quick"], env=env, cwd=HERE, stdout=subprocess.PIPE, stderr=subprocess.STDOUT)
        tail = [l for l in p.stdout.decode(errors="replace").splitlines() if l.startswith(("[C", "VIOLATION", "INCONCLUSIVE"))]
        print(c, "exit", p.returncode, tail[-1][:200] if tail else "")
    subprocess.run(["git", "-C", HERE, "checkout", "--", "evidence", "replays"], stderr=subprocess.DEVNULL)
    subprocess.run(["git", "-C", HERE, "clean", "-fdq", "replays"], stderr=subprocess.DEVNULL)


def report():
    th = build.tree_hash()
    obj = os.path.join(build.CACHE, th, "cov", "obj")
    gcdas = []
    for d, _, files in os.walk(obj):
        gcdas += [os.path.join(d, f) for f in files if f.endswith(".gcda")]
    if not gcdas:
        print("no counters under", obj)
        return 2
    files = {}
    funcs = {}
    with tempfile.TemporaryDirectory() as td:
        for g in sorted(gcdas):
            p = subprocess.run(["gcov", "--json-format", "--stdout", "-b", g], cwd=td, stdout=subprocess.PIPE, stderr=subprocess.DEVNULL)
            try:
                doc = json.loads(p.stdout.decode(errors="replace"))
            except Exception:
                continue
            for f in doc.get("files", []):
                name = f["file"]
                if not name.startswith(build.REPO + "/src") and not name.startswith(build.REPO + "/include"):
                    continue
                rel = os.path.relpath(name, build.REPO)
                fl = files.setdefault(rel, {})
                for ln in f.get("lines", []):
                    fl[ln["line_number"]] = fl.get(ln["line_number"], 0) + ln["count"]
                for fn in f.get("functions", []):
                    k = (rel, fn.get("demangled_name") or fn["name"], fn["start_line"])
                    funcs[k] = funcs.get(k, 0) + fn["execution_count"]
    out = {"tree": th, "files": {}, "functions_never_executed": []}
    tot = hit = 0
    for rel in sorted(files):
        n = len(files[rel]); h = sum(1 for c in files[rel].values() if c > 0)
        tot += n; hit += h
        out["files"][rel] = {"lines": n, "hit": h, "missed_lines": sorted(l for l, c in files[rel].items() if c == 0)}
    for (rel, name, line), c in sorted(funcs.items()):
        if c == 0:
            out["functions_never_executed"].append({"file": rel, "line": line, "function": name})
    out["total_lines"] = tot; out["total_hit"] = hit
    json.dump(out, open(os.path.join(HERE, "tools", "coverage_report.json"), "w"), indent=1)
    print("library lines executed by the quick tiers: %d of %d (%.1f%%)" % (hit, tot, 100.0 * hit / max(tot, 1)))
    for rel, d in sorted(out["files"].items(), key=lambda kv: kv[1]["hit"] / max(kv[1]["lines"], 1)):
        if d["lines"] >= 5:
            print("  %5.1f%%  %4d/%4d  %s" % (100.0 * d["hit"] / d["lines"], d["hit"], d["lines"], rel))
    print("functions never executed: %d" % len(out["functions_never_executed"]))
    for f in out["functions_never_executed"]:
        print("   %s:%d  %s" % (f["file"], f["line"], f["function"][:160]))
    return 0


if __name__ == "__main__":
    a = sys.argv[1:]
    if "--run" in a:
        names = [x for x in a if re.fullmatch(r"C\d\d", x)] or ALL
        run(names)
    if "--report" in a or not a:
        sys.exit(report())
