#!/usr/bin/env python3
"""seed_prompt.py <Cxx> <worktree>: prints the brief given to an independent sub-agent that is asked for a change
breaking property Cxx.  The brief contains the property text, the general (public) description of randomised
model-based testing, and one line per idea already submitted for that property - nothing else from /verif."""
import json, os, sys
HERE = os.path.dirname(os.path.dirname(os.path.abspath(__file__)))
pid, wt = sys.argv[1], sys.argv[2]
prop = [json.loads(l) for l in open(os.path.join(HERE, "properties.jsonl")) if json.loads(l)["id"] == pid][0]
ideas = []
for d in sorted(os.listdir(os.path.join(HERE, "seeded"))):
    mp = os.path.join(HERE, "seeded", d, "meta.json")
    if d.startswith(pid + "_") and os.path.exists(mp):
        ideas.append(json.load(open(mp))["needs_to_manifest"].split(" [batch")[0])
print(f"""You are helping to evaluate a verification effort for the C++17 library xsco/libdjinterop (reads and writes Denon
Engine DJ SQLite libraries).  You have your own scratch git worktree of the repository at {wt} (detached HEAD).
Work ONLY inside {wt}.  Never touch /repo or /verif, and do not read anything under /verif.  There is no network.

The property below is supposed to hold for the library.  Write ONE realistic change to the library's source (under
src/ or include/) that BREAKS this property, while the library still compiles and the repository's existing test-suite
still passes completely.  The change should look like something a maintainer could plausibly commit (an optimisation,
a refactoring, a cache, a "robustness" tweak, a feature), not like sabotage, and it must need something SPECIFIC to
manifest - a particular multi-step sequence of operations, an unusual but legal input, a particular size or id range,
a fault at a particular point, a particular process environment, state left by another writer (Engine DJ itself), or
two cooperating sites that each look fine alone.  It must NOT be exposed by ordinary use at once.

PROPERTY {pid}: {prop['title']}
Statement: {prop['statement']}
Quantified: {prop['quantifier']['text']}
Why the existing tests cannot settle it: {prop['why_tests_cant']}
Anchored in: {', '.join(prop['anchors']['files'])}

The verification effort you are up against is randomised model-based testing with runtime monitors: thousands of
generated histories of tens of operations per schema version (all 18 supported versions, in-memory and on disk), forests
of a handful up to a few hundred crates, a few to a few dozen tracks, ids as AUTOINCREMENT hands them out and also
started near 2^31 / 2^32 / 2^53, snapshots with boundary values in every field, blobs of a few bytes up to a few MB,
waveforms up to 5 million entries, directory names with special characters, several process time zones, a C++ global
locale with digit grouping, two handles / two libraries in one process, rows written by a foreign writer (flags, list
re-ordering, missing performance rows, NULL blobs, WAL mode, ANALYZE statistics), a fault injected at every SQL
statement of every mutating call (when it is compiled or when it is stepped, with the stored rows compared afterwards), ASan/UBSan/TSan
builds, an independent decoder of the stored bytes, and a reader of the raw tables.  Also varied already: library directories
given as relative paths, through symlinks and with "..", track paths that begin with the library directory, real audio files
next to the library, lists of 25 000 entries and subtrees of 3000 crates, playlists / history / prepare lists written by
Engine whose ids coincide with crate ids, Engine-only flag columns and membership references, beat data whose adjusted grid
differs from the default one, missing default rows (album art, default lists), WAL mode incl. un-checkpointed -wal files,
structural changes by a second connection while handles are open, several long-lived table objects next to fresh ones, a
stale handle to a deleted library in the same directory, allocation failures and small thread stacks in the decoders,
damaged blobs decoded between valid ones, payload sizes at multiples of 16 KiB, checksum look-alikes, floating-point
rounding modes for the pure functions, sibling databases (hm.db ...) in the Database2 folder.  Ideas ALREADY submitted for this property (do not repeat them or close variants of them):
""" + "\n".join(f"  - {i}" for i in ideas) + f"""

Find an axis of variation that is NOT in that description and not in that list, along which a real user's data,
environment or usage really varies, and key your change to it.  The violation must be a violation of the property AS
STATED (read the statement carefully; e.g. values the statement exempts do not count).

Steps:
1. Build once:  cd {wt} && cmake -S . -B _b -G Ninja -DCMAKE_BUILD_TYPE=Debug >/dev/null && cmake --build _b -j6
   Tests:       ctest --test-dir _b -j4 --timeout 900      (all 9 test programs must pass with your change)
   ALWAYS run any program linked against the library under `timeout 120`.
2. Make the change.  Keep it small (typically < 60 changed lines).  Rebuild, run the whole test-suite.
3. Write a demonstration {wt}/SEED/demo.cpp: a small standalone program using the public API (internal headers under
   src/ may be included if the property is about internal codecs) that exits 0 when the property holds and non-zero
   (printing what went wrong) when it is violated.  It must exit non-zero WITH your change and 0 WITHOUT it.
   It is compiled like this (make sure that works):
     g++ -std=c++17 SEED/demo.cpp -I{wt}/include -I{wt}/_b/include -I{wt}/_b -I{wt}/ext/sqlite_modern_cpp -I{wt}/src -L{wt}/_b -ldjinterop -lsqlite3 -lz -Wl,-rpath,{wt}/_b -o SEED/demo.bin
   If the demonstration needs something else (sanitizer flags, library sources compiled in), provide SEED/build_demo.sh
   taking the worktree path as $1 and producing SEED/demo.
4. Verify both directions yourself: with the change (demo fails, ctest passes), then revert with `git apply -R SEED/patch.diff` (never `git stash`: the stash is shared by all worktrees of the repository), rebuild,
   demo passes; then re-apply.
5. Write {wt}/SEED/patch.diff  (cd {wt} && git diff -- src include > SEED/patch.diff) and {wt}/SEED/README.txt with:
   what the change is, what exactly it needs in order to manifest, and why the existing tests do not see it.
Leave the worktree with the change applied and SEED/ filled in.  Your final message: three lines - the idea, what it
needs to manifest, and the result of your two-direction verification.""")
