#!/usr/bin/env python3
"""import_seed.py <src-dir> <id> <property> <needs> <detected-by...>: copies a confirmed seeded change into /verif/seeded/<id>/."""
import json, os, shutil, sys
src, sid, prop, needs = sys.argv[1:5]
det = sys.argv[5:]
dst = os.path.join("/verif/seeded", sid)
os.makedirs(dst, exist_ok=True)
for f in os.listdir(src):
    if f in ("patch.diff", "README.txt", "confirm.txt") or (f.startswith("demo") and f.endswith(".cpp")):
        shutil.copy(os.path.join(src, f), os.path.join(dst, f))
conf = open(os.path.join(src, "confirm.txt")).read().strip().splitlines()
meta = {
    "id": sid, "property": prop,
    "needs_to_manifest": needs,
    "origin": "written by an independent sub-agent that was given only the property text and a scratch worktree",
    "confirmed": {"how": "tools/confirm_seed.sh in a scratch worktree of /repo: apply patch, build, ctest, run demo (must fail), revert, rebuild, run demo (must pass)",
                  "log": conf},
    "checks_run": "python3 tools/seeded.py seeded/%s %s   (applies the patch to /repo, runs the quick tier, restores /repo)" % (sid, " ".join(d.split(":")[0] for d in det)),
    "detected_by": [{"check": d.split(":")[0], "keys": d.split(":", 1)[1] if ":" in d else ""} for d in det],
}
json.dump(meta, open(os.path.join(dst, "meta.json"), "w"), indent=1)
print("imported", sid)
