#!/usr/bin/env python3
"""Generates seeded/README.md from the meta.json files."""
import glob, json, os
HERE = os.path.dirname(os.path.dirname(os.path.abspath(__file__)))
rows = []
for p in sorted(glob.glob(os.path.join(HERE, "seeded", "*", "meta.json"))):
    m = json.load(open(p))
    det = "; ".join("%s: `%s`" % (d["check"], d["keys"]) for d in m.get("detected_by", [])) or "MISSED"
    rows.append("| %s | %s | %s | %s |" % (m["id"], m["property"], m["needs_to_manifest"].replace("|", "/"), det.replace("|", "/")))
out = ["# Seeded changes", "",
       "Each directory holds `patch.diff` (a change to xsco/libdjinterop that breaks one property while still compiling and passing the",
       "repository's test-suite), the demonstration that fails with it and passes without it, the author's `README.txt`, `confirm.txt`",
       "(my own confirmation run in a scratch worktree) and `meta.json`.  None of these is ever committed to /repo; to run the checks",
       "against one: `python3 tools/seeded.py seeded/<id> <check ids>` (applies, runs, restores).", "",
       "| id | property | needs, in order to manifest | reported by (violation keys) |", "|---|---|---|---|"] + rows + [""]
open(os.path.join(HERE, "seeded", "README.md"), "w").write("\n".join(out))
print(len(rows), "seeded changes")
