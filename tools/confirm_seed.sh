#!/bin/sh
# confirm_seed.sh <worktree-with-_b-build> <seed-dir>
# Confirms, in a scratch worktree of /repo, that the seeded change (1) builds, (2) passes the repository's
# test-suite, (3) makes its demonstration fail, and that (4) the demonstration passes without the change.
wt=$1; d=$2; out=$d/confirm.txt
cd "$wt" || exit 2
git checkout -q -- . ; git checkout -q --detach main 2>/dev/null
[ -d _b ] || cmake -S . -B _b -G Ninja -DCMAKE_BUILD_TYPE=Debug >/dev/null 2>&1
{
echo "base: $(git rev-parse --short HEAD)"
if ! git apply "$d/patch.diff"; then echo "RESULT patch-does-not-apply"; exit 1; fi
if ! cmake --build _b -j8 >/dev/null 2>&1; then echo "RESULT build-fails"; git checkout -q -- .; exit 1; fi
t=$(ctest --test-dir _b -j4 --timeout 900 2>&1 | grep "tests passed")
echo "tests with change: $t"
build_demo() {
  if [ -f "$d/build_demo.sh" ]; then
    # the author's own build line (typically compiles the library sources into the demo with sanitizers)
    ( cd "$d" && rm -f demo demo.bin && sh ./build_demo.sh "$wt" >demo_build.log 2>&1; [ -f demo ] && mv demo demo.bin; [ -f demo.bin ] )
  else
    demo=$(ls "$d"/demo*.cpp | head -1)
    g++ -std=c++17 "$demo" -I"$wt/include" -I"$wt/_b/include" -I"$wt/_b" -I"$wt/ext/sqlite_modern_cpp" -I"$wt/src" -L"$wt/_b" -ldjinterop -lsqlite3 -lz -Wl,-rpath,"$wt/_b" -o "$d/demo.bin" 2>"$d/demo_build.log"
  fi
}
build_demo || { echo "RESULT demo-does-not-compile"; git checkout -q -- .; exit 1; }
( cd "$d" && timeout 300 ./demo.bin >demo_with.txt 2>&1 ); rc1=$?
echo "demo with change: exit $rc1"
git checkout -q -- .
cmake --build _b -j8 >/dev/null 2>&1
# a demo that compiles library sources in must be rebuilt against the reverted tree
[ -f "$d/build_demo.sh" ] && { build_demo || { echo "RESULT demo-does-not-compile-clean"; exit 1; }; }
( cd "$d" && timeout 300 ./demo.bin >demo_without.txt 2>&1 ); rc2=$?
echo "demo without change: exit $rc2"
case "$t" in "100% tests passed"*) tp=1;; *) tp=0;; esac
if [ $tp = 1 ] && [ $rc1 != 0 ] && [ $rc2 = 0 ]; then echo "RESULT confirmed"; else echo "RESULT not-confirmed"; fi
rm -f "$d/demo.bin"
} > "$out" 2>&1
tail -1 "$out"
