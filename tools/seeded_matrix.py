#!/usr/bin/env python3
"""seeded_matrix.py [--checks C01,C02,...] [--seeds id,id,...] [--tier quick] [--jobs N]
Runs checks against seeded changes WITHOUT touching /repo: each seeded change is applied to its own scratch git
worktree of /repo (under /tmp), the checks run with VERIF_REPO pointing there, and the worktree is removed.
Writes seeded/matrix.json: {seed id: {check id: [violation keys]}}."""
import json, os, re, subprocess, sys, tempfile, shutil
from concurrent.futures import ThreadPoolExecutor
HERE = os.path.dirname(os.path.dirname(os.path.abspath(__file__)))
args = sys.argv[1:]
def opt(name, default):
    return args[args.index(name) + 1] if name in args else default
tier = opt("--tier", "quick")
jobs = int(opt("--jobs", "2"))
seeds = sorted(d for d in os.listdir(os.path.join(HERE, "seeded")) if os.path.isdir(os.path.join(HERE, "seeded", d)))
if "--seeds" in args:
    seeds = opt("--seeds", "").split(",")
all_checks = ["C%02d" % i for i in range(1, 21)]
checks_opt = opt("--checks", "")
out_path = os.path.join(HERE, "seeded", "own_matrix.json" if "--own" in args else "matrix.json")
matrix = json.load(open(out_path)) if os.path.exists(out_path) else {}

def run_seed(sid):
    meta = json.load(open(os.path.join(HERE, "seeded", sid, "meta.json")))
    checks = checks_opt.split(",") if checks_opt else all_checks
    if "--own" in args:
        # only the check of the seed's own property and the other checks its meta.json names as reporting it
        checks = sorted({meta["property"]} | {d["check"] for d in meta.get("detected_by", []) if re.fullmatch(r"C\d\d", d.get("check", ""))})
    wt = tempfile.mkdtemp(prefix="seedwt_", dir="/tmp")
    os.rmdir(wt)
    res = {}
    try:
        subprocess.run(["git", "-C", "/repo", "worktree", "add", "-f", "--detach", wt, "HEAD"], stdout=subprocess.DEVNULL, stderr=subprocess.DEVNULL, check=True)
        if subprocess.run(["git", "-C", wt, "apply", os.path.join(HERE, "seeded", sid, "patch.diff")]).returncode:
            return sid, {"error": "patch does not apply"}
        outd = tempfile.mkdtemp(prefix="seedout_", dir="/tmp")
        env = dict(os.environ, VERIF_REPO=wt, VERIF_OUT=outd)
        for c in checks:
            p = subprocess.run([os.path.join(HERE, "check"), c, "--tier", tier], stdout=subprocess.PIPE, stderr=subprocess.STDOUT, cwd=HERE, env=env)
            keys = re.findall(r"^VIOLATION property=\S+ replay=\S+ key=(.*?) ::", p.stdout.decode(errors="replace"), re.M)
            res[c] = {"exit": p.returncode, "keys": keys[:8]}
    finally:
        subprocess.run(["git", "-C", "/repo", "worktree", "remove", "--force", wt], stdout=subprocess.DEVNULL, stderr=subprocess.DEVNULL)
        shutil.rmtree(wt, ignore_errors=True)
        shutil.rmtree(locals().get("outd", "/nonexistent"), ignore_errors=True)
    return sid, res

with ThreadPoolExecutor(jobs) as ex:
    for sid, res in ex.map(run_seed, seeds):
        matrix.setdefault(sid, {}).update(res)
        caught = [c for c, r in res.items() if isinstance(r, dict) and r.get("exit") == 1]
        print(sid, "caught by", caught, flush=True)
        json.dump(matrix, open(out_path, "w"), indent=1, sort_keys=True)
