#!/usr/bin/env python3
"""seeded.py <seeded-dir> [check ids...] [--tier quick]
Applies <seeded-dir>/patch.diff to /repo, runs the named checks (default: the property in meta.json),
prints their VIOLATION / summary lines, and always restores /repo afterwards (git checkout -- .)."""
import json, os, subprocess, sys
HERE = os.path.dirname(os.path.dirname(os.path.abspath(__file__)))
args = [a for a in sys.argv[1:] if not a.startswith("--")]
tier = "quick"
if "--tier" in sys.argv:
    tier = sys.argv[sys.argv.index("--tier") + 1]
    args = [a for a in args if a != tier]
d = args[0]
checks = args[1:]
meta = {}
mp = os.path.join(d, "meta.json")
if os.path.exists(mp):
    meta = json.load(open(mp))
if not checks:
    checks = [meta.get("property", os.path.basename(d.rstrip("/")).split("_")[0])]
st = subprocess.run(["git", "-C", "/repo", "status", "--porcelain", "--untracked-files=no"], stdout=subprocess.PIPE).stdout.decode().strip()
if st:
    print("refusing: /repo has local modifications:\n" + st)
    sys.exit(2)
rc = subprocess.run(["git", "-C", "/repo", "apply", os.path.abspath(os.path.join(d, "patch.diff"))]).returncode
if rc:
    print("patch does not apply")
    sys.exit(2)
out = {}
try:
    for c in checks:
        p = subprocess.run([os.path.join(HERE, "check"), c, "--tier", tier], stdout=subprocess.PIPE, stderr=subprocess.STDOUT, cwd=HERE)
        lines = [l for l in p.stdout.decode(errors="replace").splitlines() if l.startswith(("VIOLATION", "[C", "INCONCLUSIVE"))]
        out[c] = {"exit": p.returncode, "lines": [l[:400] for l in lines[:12]]}
        print("==", c, "exit", p.returncode)
        for l in lines[:12]:
            print("  ", l[:300])
finally:
    subprocess.run(["git", "-C", "/repo", "checkout", "--", "."])
    # replay files written for the mutant are not evidence about the real tree
    subprocess.run(["git", "-C", HERE, "checkout", "--", "evidence", "replays"], stderr=subprocess.DEVNULL)
    subprocess.run(["git", "-C", HERE, "clean", "-fdq", "replays"], stderr=subprocess.DEVNULL)
    subprocess.run(["git", "-C", HERE, "clean", "-fdq", "replays"], stderr=subprocess.DEVNULL)
    subprocess.run(["git", "-C", HERE, "checkout", "--", "replays"], stderr=subprocess.DEVNULL)
json.dump(out, open("/tmp/seeded_last.json", "w"), indent=1)
