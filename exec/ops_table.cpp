// Schema-2.x table API operations (track_table, playlist_table,
// playlist_entity_table, information_table).
#include <functional>

#include "common.hpp"

namespace eng = djinterop::engine;

// ---------------------------------------------------------------- typed conversions
static json to_j(int64_t v) { return v; }
static json to_j(bool v) { return v; }
static json to_j(const std::string& v) { return hex_of(v); }
static json to_j(const tp_t& v) { return tp_j(v); }
static json to_j(const std::optional<int64_t>& v) { return oi_j(v); }
static json to_j(const std::optional<int32_t>& v) { return oi_j(v); }
static json to_j(const std::optional<double>& v) { return od_j(v); }
static json to_j(const std::optional<std::string>& v) { return os_j(v); }
static json to_j(const std::optional<tp_t>& v) { return otp_j(v); }
static json to_j(const ev2::track_data_blob& v) { return td_to_json(v); }
static json to_j(const ev2::overview_waveform_data_blob& v) { return ow_to_json(v); }
static json to_j(const ev2::beat_data_blob& v) { return bd_to_json(v); }
static json to_j(const ev2::quick_cues_blob& v) { return qc_to_json(v); }
static json to_j(const ev2::loops_blob& v) { return lp_to_json(v); }

static void from_j(const json& j, int64_t& v) { v = j.get<int64_t>(); }
static void from_j(const json& j, bool& v) { v = j.get<bool>(); }
static void from_j(const json& j, std::string& v) { v = js(j); }
static void from_j(const json& j, tp_t& v) { v = jtp(j); }
static void from_j(const json& j, std::optional<int64_t>& v) { v = joi<int64_t>(j); }
static void from_j(const json& j, std::optional<int32_t>& v) { v = joi<int32_t>(j); }
static void from_j(const json& j, std::optional<double>& v) { v = jod(j); }
static void from_j(const json& j, std::optional<std::string>& v) { v = jos(j); }
static void from_j(const json& j, std::optional<tp_t>& v) { v = jotp(j); }
static void from_j(const json& j, ev2::track_data_blob& v) { v = td_from_json(j); }
static void from_j(const json& j, ev2::overview_waveform_data_blob& v) { v = ow_from_json(j); }
static void from_j(const json& j, ev2::beat_data_blob& v) { v = bd_from_json(j); }
static void from_j(const json& j, ev2::quick_cues_blob& v) { v = qc_from_json(j); }
static void from_j(const json& j, ev2::loops_blob& v) { v = lp_from_json(j); }

// X(member, accessor-suffix, accessor value type)
#define TRACK_COLUMNS(X)                                                                          \
    X(play_order, play_order, std::optional<int64_t>)                                             \
    X(length, length, int64_t)                                                                    \
    X(bpm, bpm, std::optional<int64_t>)                                                           \
    X(year, year, std::optional<int64_t>)                                                         \
    X(path, path, std::string)                                                                    \
    X(filename, filename, std::string)                                                            \
    X(bitrate, bitrate, std::optional<int64_t>)                                                   \
    X(bpm_analyzed, bpm_analyzed, std::optional<double>)                                          \
    X(album_art_id, album_art_id, int64_t)                                                        \
    X(file_bytes, file_bytes, std::optional<int64_t>)                                             \
    X(title, title, std::optional<std::string>)                                                   \
    X(artist, artist, std::optional<std::string>)                                                 \
    X(album, album, std::optional<std::string>)                                                   \
    X(genre, genre, std::optional<std::string>)                                                   \
    X(comment, comment, std::optional<std::string>)                                               \
    X(label, label, std::optional<std::string>)                                                   \
    X(composer, composer, std::optional<std::string>)                                             \
    X(remixer, remixer, std::optional<std::string>)                                               \
    X(key, key, std::optional<int32_t>)                                                           \
    X(rating, rating, int64_t)                                                                    \
    X(album_art, album_art, std::optional<std::string>)                                           \
    X(time_last_played, time_last_played, std::optional<tp_t>)                                    \
    X(is_played, is_played, bool)                                                                 \
    X(file_type, file_type, std::string)                                                          \
    X(is_analyzed, is_analyzed, bool)                                                             \
    X(date_created, date_created, std::optional<tp_t>)                                            \
    X(date_added, date_added, std::optional<tp_t>)                                                \
    X(is_available, is_available, bool)                                                           \
    X(is_metadata_of_packed_track_changed, is_metadata_of_packed_track_changed, bool)             \
    X(is_performance_data_of_packed_track_changed, is_performance_data_of_packed_track_changed,   \
      bool)                                                                                       \
    X(played_indicator, played_indicator, std::optional<int64_t>)                                 \
    X(is_metadata_imported, is_metadata_imported, bool)                                           \
    X(pdb_import_key, pdb_import_key, int64_t)                                                    \
    X(streaming_source, streaming_source, std::optional<std::string>)                             \
    X(uri, uri, std::optional<std::string>)                                                       \
    X(is_beat_grid_locked, is_beat_grid_locked, bool)                                             \
    X(origin_database_uuid, origin_database_uuid, std::string)                                    \
    X(origin_track_id, origin_track_id, int64_t)                                                  \
    X(track_data, track_data, ev2::track_data_blob)                                               \
    X(overview_waveform_data, overview_waveform_data, ev2::overview_waveform_data_blob)           \
    X(beat_data, beat_data, ev2::beat_data_blob)                                                  \
    X(quick_cues, quick_cues, ev2::quick_cues_blob)                                               \
    X(loops, loops, ev2::loops_blob)                                                              \
    X(third_party_source_id, third_party_source_id, std::optional<int64_t>)                       \
    X(streaming_flags, streaming_flags, int64_t)                                                  \
    X(explicit_lyrics, explicit_lyrics, bool)                                                     \
    X(active_on_load_loops, active_on_load_loops, std::optional<int64_t>)                         \
    X(last_edit_time, last_edit_time, tp_t)

static json track_row_to_json(const ev2::track_row& r)
{
    json j;
    j["id"] = r.id;
#define X(m, acc, T) j[#m] = to_j(r.m);
    TRACK_COLUMNS(X)
#undef X
    return j;
}

static ev2::track_row track_row_from_json(const json& j)
{
    ev2::track_row r{};
    r.id = j.value("id", (int64_t)0);
#define X(m, acc, T) \
    if (j.contains(#m)) from_j(j[#m], r.m);
    TRACK_COLUMNS(X)
#undef X
    return r;
}

static json col_get(ev2::track_table& t, int64_t id, const std::string& col)
{
#define X(m, acc, T) \
    if (col == #m) return to_j(t.get_##acc(id));
    TRACK_COLUMNS(X)
#undef X
    throw harness_error("unknown column " + col);
}

static void col_set(ev2::track_table& t, int64_t id, const std::string& col, const json& v)
{
#define X(m, acc, T)          \
    if (col == #m)            \
    {                         \
        T val{};              \
        from_j(v, val);       \
        t.set_##acc(id, val); \
        return;               \
    }
    TRACK_COLUMNS(X)
#undef X
    throw harness_error("unknown column " + col);
}

static json pl_row_j(const ev2::playlist_row& r)
{
    return {{"id", r.id}, {"title", hex_of(r.title)}, {"parent_list_id", r.parent_list_id},
            {"is_persisted", r.is_persisted}, {"next_list_id", r.next_list_id},
            {"last_edit_time", tp_j(r.last_edit_time)}, {"is_explicitly_exported", r.is_explicitly_exported}};
}
static ev2::playlist_row j_pl_row(const json& j)
{
    return ev2::playlist_row{
        j.value("id", (int64_t)0), js(j.at("title")), j.at("parent_list_id").get<int64_t>(),
        j.at("is_persisted").get<bool>(), j.at("next_list_id").get<int64_t>(),
        jtp(j.at("last_edit_time")), j.at("is_explicitly_exported").get<bool>()};
}
static json pe_row_j(const ev2::playlist_entity_row& r)
{
    return {{"id", r.id}, {"list_id", r.list_id}, {"track_id", r.track_id},
            {"database_uuid", hex_of(r.database_uuid)}, {"next_entity_id", r.next_entity_id},
            {"membership_reference", r.membership_reference}};
}
static ev2::playlist_entity_row j_pe_row(const json& j)
{
    return ev2::playlist_entity_row{
        j.value("id", (int64_t)0), j.at("list_id").get<int64_t>(), j.at("track_id").get<int64_t>(),
        js(j.at("database_uuid")), j.value("next_entity_id", (int64_t)0),
        j.value("membership_reference", (int64_t)0)};
}
template <typename L>
static json ids_j(const L& l)
{
    json a = json::array();
    for (auto i : l) a.push_back(i);
    return a;
}

static json guarded(const std::function<json()>& f)
{
    try
    {
        return f();
    }
    catch (const std::exception& e)
    {
        json x = exception_to_json(e);
        return {{"exc", x["type"]}, {"is", x["is"]}};
    }
    catch (...)
    {
        return {{"exc", "non-std"}, {"nonstd", true}};
    }
}

static json table_observe(ev2::engine_library& lib, const json& a)
{
    json o;
    auto tt = lib.track();
    auto pt = lib.playlist();
    auto pe = lib.playlist_entity();
    o["info"] = guarded([&] {
        auto i = lib.information().get();
        return json{{"id", i.id}, {"uuid", i.uuid}, {"maj", i.schema_version_major},
                    {"min", i.schema_version_minor}, {"pat", i.schema_version_patch},
                    {"played", i.current_played_indicator}, {"rb", i.last_rekord_box_library_import_read_counter}};
    });
    o["change_log"] = guarded([&] {
        json rows = json::array();
        for (auto& r : lib.change_log().all()) rows.push_back(json::array({r.id, r.track_id}));
        return rows;
    });
    o["change_log_last"] = guarded([&] {
        auto r = lib.change_log().last();
        return r ? json::array({r->id, r->track_id}) : json(nullptr);
    });
    std::vector<int64_t> tids, pids;
    o["track_ids"] = guarded([&] {
        tids = tt.all_ids();
        return ids_j(tids);
    });
    if (a.value("rows", true))
    {
        json rows;
        for (auto id : tids) rows[std::to_string(id)] = guarded([&] {
            auto r = tt.get(id);
            return r ? track_row_to_json(*r) : json(nullptr);
        });
        o["track_rows"] = rows;
    }
    o["playlist_ids"] = guarded([&] {
        pids = pt.all_ids();
        return ids_j(pids);
    });
    o["root_ids"] = guarded([&] { return ids_j(pt.root_ids()); });
    json pls;
    for (auto id : pids)
    {
        json p;
        p["row"] = guarded([&] {
            auto r = pt.get(id);
            return r ? pl_row_j(*r) : json(nullptr);
        });
        p["child_ids"] = guarded([&] { return ids_j(pt.child_ids(id)); });
        p["descendant_ids"] = guarded([&] { return ids_j(pt.descendant_ids(id)); });
        p["entities"] = guarded([&] {
            json e = json::array();
            for (auto& r : pe.get_for_list(id)) e.push_back(pe_row_j(r));
            return e;
        });
        p["track_ids"] = guarded([&] { return ids_j(pe.track_ids(id)); });
        pls[std::to_string(id)] = p;
    }
    o["playlists"] = pls;
    return o;
}

json observe_tables(State& st, const json& a)
{
    if (!st.lib) return nullptr;
    return table_observe(*st.lib, a);
}

bool dispatch_table(State& st, const std::string& op, const json& a, json& ret)
{
    auto need_schema = [&]() {
        auto s = schema_by_name(a.at("schema").get<std::string>());
        if (!s) throw harness_error("unknown schema");
        return *s;
    };
    if (op == "lib_create_temporary")
    {
        st.reset();
        auto s = need_schema();
        st.lib = ev2::engine_library::create_temporary(s);
        st.db = st.lib->database();
        st.schema_name = eng::to_string(s);
        st.is_v2 = true;
        ret = true;
        return true;
    }
    if (op == "lib_create")
    {
        st.reset();
        auto s = need_schema();
        st.lib = ev2::engine_library::create(a.at("dir").get<std::string>(), s);
        st.db = st.lib->database();
        st.schema_name = eng::to_string(s);
        st.is_v2 = true;
        ret = true;
        return true;
    }
    if (op == "lib_exists")
    {
        ret = ev2::engine_library::exists(a.at("dir").get<std::string>());
        return true;
    }
    if (op == "lib_load_probe")
    {
        // the 2.x-specific loader: load and immediately release, without disturbing the current state
        auto lib = ev2::engine_library::load(a.at("dir").get<std::string>());
        ret["schema"] = eng::to_string(lib.schema());
        ret["version_name"] = lib.database().version_name();
        return true;
    }
    if (op == "lib_load")
    {
        st.reset();
        st.lib = ev2::engine_library::load(a.at("dir").get<std::string>());
        st.db = st.lib->database();
        st.schema_name = eng::to_string(st.lib->schema());
        st.is_v2 = true;
        ret = st.schema_name;
        return true;
    }
    if (op.rfind("trk_", 0) != 0 && op.rfind("pl_", 0) != 0 && op.rfind("pe_", 0) != 0 && op.rfind("info_", 0) != 0 &&
        op.rfind("cl_", 0) != 0 && op != "table_observe" && op != "lib_schema")
        return false;
    if (!st.lib) throw harness_error("no engine_library for table op");
    auto& lib = *st.lib;
    if (op == "lib_schema")
    {
        ret = eng::to_string(lib.schema());
        return true;
    }
    if (op == "table_observe")
    {
        ret = table_observe(lib, a);
        return true;
    }
    if (op == "info_get")
    {
        auto i = lib.information().get();
        ret = {{"id", i.id}, {"uuid", i.uuid}, {"maj", i.schema_version_major},
               {"min", i.schema_version_minor}, {"pat", i.schema_version_patch}};
        return true;
    }
    if (op == "info_get_full")
    {
        auto i = lib.information().get();
        ret = {{"id", i.id}, {"uuid", i.uuid}, {"maj", i.schema_version_major}, {"min", i.schema_version_minor},
               {"pat", i.schema_version_patch}, {"played", i.current_played_indicator},
               {"rb", i.last_rekord_box_library_import_read_counter}};
        return true;
    }
    if (op == "info_set_played")
    {
        lib.information().update_current_played_indicator(a.at("value").get<int64_t>());
        ret = true;
        return true;
    }
    if (op == "cl_all" || op == "cl_after" || op == "cl_last")
    {
        auto cl = lib.change_log();
        json rows = json::array();
        if (op == "cl_all")
            for (auto& r : cl.all()) rows.push_back(json::array({r.id, r.track_id}));
        else if (op == "cl_after")
            for (auto& r : cl.after(a.at("id").get<int64_t>())) rows.push_back(json::array({r.id, r.track_id}));
        else
        {
            auto r = cl.last();
            if (r) rows.push_back(json::array({r->id, r->track_id}));
        }
        ret = rows;
        return true;
    }
    auto fresh_tt = lib.track();
    auto fresh_pt = lib.playlist();
    auto fresh_pe = lib.playlist_entity();
    bool held = a.value("held", false);
    if (held && !st.held_tt)
    {
        st.held_tt.emplace(lib.track());
        st.held_pt.emplace(lib.playlist());
        st.held_pe.emplace(lib.playlist_entity());
    }
    auto& tt = held ? *st.held_tt : fresh_tt;
    auto& pt = held ? *st.held_pt : fresh_pt;
    auto& pe = held ? *st.held_pe : fresh_pe;
    if (op == "trk_add") { ret = tt.add(track_row_from_json(a.at("row"))); return true; }
    if (op == "trk_get")
    {
        auto r = tt.get(a.at("id").get<int64_t>());
        ret = r ? track_row_to_json(*r) : json(nullptr);
        return true;
    }
    if (op == "trk_update") { tt.update(track_row_from_json(a.at("row"))); ret = true; return true; }
    if (op == "trk_remove") { tt.remove(a.at("id").get<int64_t>()); ret = true; return true; }
    if (op == "trk_exists") { ret = tt.exists(a.at("id").get<int64_t>()); return true; }
    if (op == "trk_all_ids") { ret = ids_j(tt.all_ids()); return true; }
    if (op == "trk_find_id_by_path") { ret = oi_j(tt.find_id_by_path(js(a.at("path")))); return true; }
    if (op == "trk_get_col") { ret = col_get(tt, a.at("id").get<int64_t>(), a.at("col").get<std::string>()); return true; }
    if (op == "trk_set_col")
    {
        col_set(tt, a.at("id").get<int64_t>(), a.at("col").get<std::string>(), a.at("value"));
        ret = true;
        return true;
    }
    if (op == "pl_add") { ret = pt.add(j_pl_row(a.at("row"))); return true; }
    if (op == "pl_get")
    {
        auto r = pt.get(a.at("id").get<int64_t>());
        ret = r ? pl_row_j(*r) : json(nullptr);
        return true;
    }
    if (op == "pl_update") { pt.update(j_pl_row(a.at("row"))); ret = true; return true; }
    if (op == "pl_remove") { pt.remove(a.at("id").get<int64_t>()); ret = true; return true; }
    if (op == "pl_exists") { ret = pt.exists(a.at("id").get<int64_t>()); return true; }
    if (op == "pl_all_ids") { ret = ids_j(pt.all_ids()); return true; }
    if (op == "pl_root_ids") { ret = ids_j(pt.root_ids()); return true; }
    if (op == "pl_child_ids") { ret = ids_j(pt.child_ids(a.at("id").get<int64_t>())); return true; }
    if (op == "pl_descendant_ids") { ret = ids_j(pt.descendant_ids(a.at("id").get<int64_t>())); return true; }
    if (op == "pl_find_ids") { ret = ids_j(pt.find_ids(js(a.at("title")))); return true; }
    if (op == "pl_find_id") { ret = oi_j(pt.find_id(a.at("parent").get<int64_t>(), js(a.at("title")))); return true; }
    if (op == "pl_find_root_id") { ret = oi_j(pt.find_root_id(js(a.at("title")))); return true; }
    if (op == "pe_add_back")
    {
        ret = pe.add_back(j_pe_row(a.at("row")), a.value("throw_if_duplicate", false));
        return true;
    }
    if (op == "pe_get")
    {
        auto r = pe.get(a.at("list").get<int64_t>(), a.at("track").get<int64_t>());
        ret = r ? pe_row_j(*r) : json(nullptr);
        return true;
    }
    if (op == "pe_get_for_list")
    {
        json e = json::array();
        for (auto& r : pe.get_for_list(a.at("list").get<int64_t>())) e.push_back(pe_row_j(r));
        ret = e;
        return true;
    }
    if (op == "pe_track_ids") { ret = ids_j(pe.track_ids(a.at("list").get<int64_t>())); return true; }
    if (op == "pe_remove") { pe.remove(a.at("list").get<int64_t>(), a.at("track").get<int64_t>()); ret = true; return true; }
    if (op == "pe_clear") { pe.clear(a.at("list").get<int64_t>()); ret = true; return true; }
    throw harness_error("unknown table op " + op);
}
