// Monitors installed by symbol interposition.  These definitions live in the
// executable, so they pre-empt the shared-library symbols for every caller in
// the process (the library's sqlite_modern_cpp wrappers and zlib helpers call
// straight into them); each forwards to the real function via RTLD_NEXT.
#include <dlfcn.h>
#include <fcntl.h>
#include <sqlite3.h>
#include <sys/mman.h>
#include <unistd.h>
#include <zlib.h>

#include <algorithm>
#include <cstdio>
#include <cstdlib>
#include <cstring>
#include <deque>
#include <new>
#include <string>
#include <vector>

#include "common.hpp"

thread_local bool t_shim_bypass = false;

#ifdef VERIF_SAN
extern "C" void* __asan_region_is_poisoned(void* beg, size_t size);
#endif

ShimCounters g_shim;

namespace
{
std::vector<sqlite3*> g_conns;
bool g_harness_sql = false;  // set while the harness itself talks to SQLite
long long g_fault_k = 0;     // 0 = disarmed
int g_fault_code = SQLITE_FULL;
bool g_fault_writes_only = false;
long long g_fault_seen = 0;
long long g_step_budget = 50000000;  // VDBE instructions per op
long long g_progress_ticks = 0;
const int PROGRESS_N = 10000;
long long g_inflate_budget = 100000;
std::deque<std::string> g_recent_sql;
size_t g_alloc_cap = (size_t)128 << 20;

char* g_witness = nullptr;
const size_t WITNESS_SIZE = 1 << 20;

int progress_cb(void*)
{
    if (g_harness_sql) return 0;
    ++g_progress_ticks;
    if (g_progress_ticks * PROGRESS_N > g_step_budget)
    {
        g_shim.step_budget_exceeded = true;
        return 1;
    }
    return 0;
}

template <typename F>
F real(const char* name)
{
    void* p = dlsym(RTLD_NEXT, name);
    if (!p)
    {
        fprintf(stderr, "HARNESS: dlsym(%s) failed\n", name);
        _exit(97);
    }
    return reinterpret_cast<F>(p);
}

bool starts_with_ci(const char* s, const char* p)
{
    while (*s == ' ' || *s == '\n' || *s == '\t') ++s;
    for (; *p; ++s, ++p)
        if (toupper((unsigned char)*s) != *p) return false;
    return true;
}
}  // namespace

struct HarnessSqlScope
{
    bool prev;
    HarnessSqlScope() : prev(g_harness_sql) { g_harness_sql = true; }
    ~HarnessSqlScope() { g_harness_sql = prev; }
};
void harness_sql_enter() { g_harness_sql = true; }
void harness_sql_leave() { g_harness_sql = false; }

void shim_begin_op()
{
    g_shim = ShimCounters{};
    g_progress_ticks = 0;
    g_fault_seen = 0;
}
void shim_arm_fault(long long k, int code, bool writes_only)
{
    g_fault_k = k;
    g_fault_code = code;
    g_fault_writes_only = writes_only;
    g_fault_seen = 0;
}
void shim_disarm() { g_fault_k = 0; }
// Where an armed fault strikes: at the k-th statement's first sqlite3_step() (default) or at the k-th sqlite3_prepare_v2().
static bool g_fault_at_prepare = false;
void shim_set_fault_site(bool at_prepare) { g_fault_at_prepare = at_prepare; }
void shim_set_step_budget(long long n) { g_step_budget = n; }
void shim_set_inflate_budget(long long n) { g_inflate_budget = n; }
std::vector<sqlite3*> shim_connections() { return g_conns; }
long long shim_total_changes()
{
    long long t = 0;
    for (auto* c : g_conns) t += sqlite3_total_changes(c);
    return t;
}
int shim_any_in_txn()
{
    int n = 0;
    for (auto* c : g_conns)
        if (!sqlite3_get_autocommit(c)) ++n;
    return n;
}
std::vector<std::string> shim_recent_sql() { return {g_recent_sql.begin(), g_recent_sql.end()}; }

void witness_init(const char* path)
{
    int fd = open(path, O_RDWR | O_CREAT, 0644);
    if (fd < 0) return;
    if (ftruncate(fd, WITNESS_SIZE) != 0)
    {
        close(fd);
        return;
    }
    void* p = mmap(nullptr, WITNESS_SIZE, PROT_READ | PROT_WRITE, MAP_SHARED, fd, 0);
    close(fd);
    if (p != MAP_FAILED) g_witness = static_cast<char*>(p);
}
void witness_set(const char* tag, const void* data, size_t n)
{
    if (!g_witness) return;
    // layout: tag\0 | u32 length | bytes
    size_t tl = strlen(tag);
    if (tl > 63) tl = 63;
    memcpy(g_witness, tag, tl);
    g_witness[tl] = 0;
    uint32_t len = (uint32_t)std::min(n, WITNESS_SIZE - 72);
    memcpy(g_witness + 64, &len, 4);
    uint32_t full = (uint32_t)n;
    memcpy(g_witness + 68, &full, 4);
    if (len) memcpy(g_witness + 72, data, len);
}

extern "C"
{
int sqlite3_open_v2(const char* filename, sqlite3** ppDb, int flags, const char* zVfs)
{
    static auto fn = real<int (*)(const char*, sqlite3**, int, const char*)>("sqlite3_open_v2");
    int rc = fn(filename, ppDb, flags, zVfs);
    if (!g_harness_sql && ppDb && *ppDb)
    {
        g_conns.push_back(*ppDb);
        sqlite3_progress_handler(*ppDb, PROGRESS_N, progress_cb, nullptr);
    }
    return rc;
}

int sqlite3_close_v2(sqlite3* db)
{
    static auto fn = real<int (*)(sqlite3*)>("sqlite3_close_v2");
    g_conns.erase(std::remove(g_conns.begin(), g_conns.end(), db), g_conns.end());
    return fn(db);
}

int sqlite3_prepare_v2(sqlite3* db, const char* zSql, int nByte, sqlite3_stmt** ppStmt, const char** pzTail)
{
    static auto fn = real<int (*)(sqlite3*, const char*, int, sqlite3_stmt**, const char**)>("sqlite3_prepare_v2");
    if (g_harness_sql || !g_fault_at_prepare || g_fault_k <= 0) return fn(db, zSql, nByte, ppStmt, pzTail);
    std::string sql = zSql ? (nByte >= 0 ? std::string(zSql, strnlen(zSql, (size_t)nByte)) : std::string(zSql)) : std::string();
    if (!starts_with_ci(sql.c_str(), "ROLLBACK") && ++g_fault_seen == g_fault_k)
    {
        // the statement cannot even be compiled (out of memory, schema locked by another connection ...)
        g_shim.fault_fired = true;
        g_shim.fault_sql = "[prepare] " + sql.substr(0, 150);
        g_fault_k = 0;
        if (ppStmt) *ppStmt = nullptr;
        if (pzTail) *pzTail = zSql;
        return g_fault_code;
    }
    return fn(db, zSql, nByte, ppStmt, pzTail);
}

int sqlite3_step(sqlite3_stmt* s)
{
    static auto fn = real<int (*)(sqlite3_stmt*)>("sqlite3_step");
    if (g_harness_sql) return fn(s);
    ++g_shim.steps;
    if (!sqlite3_stmt_busy(s))
    {
        const char* sql = sqlite3_sql(s);
        if (!sql) sql = "";
        bool txn_ctl = starts_with_ci(sql, "BEGIN") || starts_with_ci(sql, "COMMIT") ||
                       starts_with_ci(sql, "ROLLBACK") || starts_with_ci(sql, "SAVEPOINT") ||
                       starts_with_ci(sql, "RELEASE") || starts_with_ci(sql, "END");
        bool ro = sqlite3_stmt_readonly(s) && !txn_ctl;
        ++g_shim.stmts;
        if (ro)
            ++g_shim.stmts_ro;
        else
            ++g_shim.stmts_write;
        if (g_recent_sql.size() >= 12) g_recent_sql.pop_front();
        g_recent_sql.emplace_back(std::string(sql).substr(0, 160));
        if (g_fault_k > 0 && !g_fault_at_prepare && !starts_with_ci(sql, "ROLLBACK") && !(g_fault_writes_only && ro))
        {
            if (++g_fault_seen == g_fault_k)
            {
                g_shim.fault_fired = true;
                g_shim.fault_sql = std::string(sql).substr(0, 160);
                g_fault_k = 0;
                return g_fault_code;
            }
        }
    }
    return fn(s);
}

int inflate(z_streamp strm, int flush)
{
    static auto fn = real<int (*)(z_streamp, int)>("inflate");
    if (t_shim_bypass) return fn(strm, flush);
    ++g_shim.inflate_calls;
#ifdef VERIF_SAN
    if (strm && strm->avail_in > 0 && strm->next_in)
    {
        void* bad = __asan_region_is_poisoned(strm->next_in, strm->avail_in);
        if (bad && !g_shim.inflate_window_bad)
        {
            g_shim.inflate_window_bad = true;
            char buf[160];
            snprintf(
                buf, sizeof buf, "inflate input window of %u bytes is poisoned at offset %ld",
                strm->avail_in, (long)((char*)bad - (char*)strm->next_in));
            g_shim.inflate_window_msg = buf;
            // Clamp the window so zlib itself stays inside live memory: the
            // violation is recorded, the process carries on.
            strm->avail_in = (uInt)((char*)bad - (char*)strm->next_in);
        }
    }
#endif
    if (g_shim.inflate_calls > g_inflate_budget)
    {
        g_shim.inflate_budget_exceeded = true;
        return Z_DATA_ERROR;
    }
    int rc = fn(strm, flush);
    if (rc == Z_BUF_ERROR) ++g_shim.inflate_buf_errors;
    return rc;
}
}  // extern "C"

// Allocation cap: a single request above the cap fails with std::bad_alloc, a
// legal outcome of any allocation, instead of ASan's fatal
// allocation-size-too-big report (which the properties do not forbid).
// Allocation failpoint: when armed with k > 0, the k-th C++ allocation from now on fails with std::bad_alloc (what a
// process under memory pressure sees); it fires once and disarms itself.
static long long g_alloc_countdown = 0;
static bool g_alloc_fired = false;
void shim_arm_alloc_fault(long long k)
{
    g_alloc_countdown = k;
    g_alloc_fired = false;
}
bool shim_disarm_alloc_fault()
{
    g_alloc_countdown = 0;
    return g_alloc_fired;
}
static void* capped_alloc(std::size_t n)
{
    if (g_alloc_countdown > 0 && !t_shim_bypass && --g_alloc_countdown == 0)
    {
        g_alloc_fired = true;
        throw std::bad_alloc();
    }
    if (n > g_alloc_cap)
    {
        g_shim.big_alloc = true;
        throw std::bad_alloc();
    }
    void* p = std::malloc(n ? n : 1);
    if (!p) throw std::bad_alloc();
    return p;
}
void* operator new(std::size_t n) { return capped_alloc(n); }
void* operator new[](std::size_t n) { return capped_alloc(n); }
void* operator new(std::size_t n, const std::nothrow_t&) noexcept
{
    if (n > g_alloc_cap) return nullptr;
    return std::malloc(n ? n : 1);
}
void* operator new[](std::size_t n, const std::nothrow_t&) noexcept
{
    if (n > g_alloc_cap) return nullptr;
    return std::malloc(n ? n : 1);
}
void operator delete(void* p) noexcept { std::free(p); }
void operator delete[](void* p) noexcept { std::free(p); }
void operator delete(void* p, std::size_t) noexcept { std::free(p); }
void operator delete[](void* p, std::size_t) noexcept { std::free(p); }
void operator delete(void* p, const std::nothrow_t&) noexcept { std::free(p); }
void operator delete[](void* p, const std::nothrow_t&) noexcept { std::free(p); }
