// Codec operations on the eleven blob types plus zlib_uncompress.
#include <pthread.h>
#include <atomic>
#include <thread>
#include <functional>

#include <zlib.h>

#include "common.hpp"

#include "djinterop/engine/encode_decode_utils.hpp"
#include "djinterop/engine/v1/performance_data_format.hpp"

namespace v1 = djinterop::engine::v1;

static json color_j(const dj::pad_color& c) { return json::array({c.r, c.g, c.b, c.a}); }
static dj::pad_color j_color(const json& j)
{
    return dj::pad_color{
        (uint_least8_t)j[0].get<int>(), (uint_least8_t)j[1].get<int>(),
        (uint_least8_t)j[2].get<int>(), (uint_least8_t)j[3].get<int>()};
}

// ---------------------------------------------------------------- v2 blobs
json td_to_json(const ev2::track_data_blob& b)
{
    return {{"sample_rate", dhex(b.sample_rate)}, {"samples", b.samples}, {"key", b.key},
            {"ll", dhex(b.average_loudness_low)}, {"lm", dhex(b.average_loudness_mid)},
            {"lh", dhex(b.average_loudness_high)}, {"extra", hex_of(b.extra_data)}};
}
ev2::track_data_blob td_from_json(const json& j)
{
    ev2::track_data_blob b{};
    b.sample_rate = jd(j.at("sample_rate"));
    b.samples = j.at("samples").get<int64_t>();
    b.key = j.at("key").get<int32_t>();
    b.average_loudness_low = jd(j.at("ll"));
    b.average_loudness_mid = jd(j.at("lm"));
    b.average_loudness_high = jd(j.at("lh"));
    b.extra_data = unhex_bytes(j.value("extra", std::string{}));
    return b;
}
static json grid2_j(const std::vector<ev2::beat_grid_marker_blob>& g)
{
    json a = json::array();
    for (auto& m : g)
        a.push_back(json::array({dhex(m.sample_offset), m.beat_number, m.number_of_beats, m.unknown_value_1}));
    return a;
}
static std::vector<ev2::beat_grid_marker_blob> j_grid2(const json& j)
{
    std::vector<ev2::beat_grid_marker_blob> g;
    for (auto& m : j)
        g.push_back(ev2::beat_grid_marker_blob{jd(m[0]), m[1].get<int64_t>(), m[2].get<int32_t>(), m[3].get<int32_t>()});
    return g;
}
json bd_to_json(const ev2::beat_data_blob& b)
{
    return {{"sample_rate", dhex(b.sample_rate)}, {"samples", dhex(b.samples)},
            {"is_set", (int)b.is_beatgrid_set}, {"default", grid2_j(b.default_beat_grid)},
            {"adjusted", grid2_j(b.adjusted_beat_grid)}, {"extra", hex_of(b.extra_data)}};
}
ev2::beat_data_blob bd_from_json(const json& j)
{
    ev2::beat_data_blob b{};
    b.sample_rate = jd(j.at("sample_rate"));
    b.samples = jd(j.at("samples"));
    b.is_beatgrid_set = (uint8_t)j.at("is_set").get<int>();
    b.default_beat_grid = j_grid2(j.at("default"));
    b.adjusted_beat_grid = j_grid2(j.at("adjusted"));
    b.extra_data = unhex_bytes(j.value("extra", std::string{}));
    return b;
}
json qc_to_json(const ev2::quick_cues_blob& b)
{
    json cues = json::array();
    for (auto& c : b.quick_cues)
        cues.push_back({{"label", hex_of(c.label)}, {"off", dhex(c.sample_offset)}, {"color", color_j(c.color)}});
    return {{"cues", cues}, {"adjusted", dhex(b.adjusted_main_cue)},
            {"is_adjusted", (int)b.is_main_cue_adjusted}, {"default", dhex(b.default_main_cue)},
            {"extra", hex_of(b.extra_data)}};
}
ev2::quick_cues_blob qc_from_json(const json& j)
{
    ev2::quick_cues_blob b{};
    for (auto& c : j.at("cues"))
        b.quick_cues.push_back(ev2::quick_cue_blob{js(c.at("label")), jd(c.at("off")), j_color(c.at("color"))});
    b.adjusted_main_cue = jd(j.at("adjusted"));
    b.is_main_cue_adjusted = j.at("is_adjusted").get<int>() != 0;
    b.default_main_cue = jd(j.at("default"));
    b.extra_data = unhex_bytes(j.value("extra", std::string{}));
    return b;
}
json lp_to_json(const ev2::loops_blob& b)
{
    json loops = json::array();
    for (auto& l : b.loops)
        loops.push_back({{"label", hex_of(l.label)}, {"start", dhex(l.start_sample_offset)},
                         {"end", dhex(l.end_sample_offset)}, {"ss", (int)l.is_start_set},
                         {"es", (int)l.is_end_set}, {"color", color_j(l.color)}});
    return {{"loops", loops}, {"extra", hex_of(b.extra_data)}};
}
ev2::loops_blob lp_from_json(const json& j)
{
    ev2::loops_blob b{};
    for (auto& l : j.at("loops"))
        b.loops.push_back(ev2::loop_blob{
            js(l.at("label")), jd(l.at("start")), jd(l.at("end")), (uint8_t)l.at("ss").get<int>(),
            (uint8_t)l.at("es").get<int>(), j_color(l.at("color"))});
    b.extra_data = unhex_bytes(j.value("extra", std::string{}));
    return b;
}
json ow_to_json(const ev2::overview_waveform_data_blob& b)
{
    std::string raw;
    raw.resize(b.waveform_points.size() * 3);
    for (size_t i = 0; i < b.waveform_points.size(); ++i)
    {
        raw[3 * i] = (char)b.waveform_points[i].low_value;
        raw[3 * i + 1] = (char)b.waveform_points[i].mid_value;
        raw[3 * i + 2] = (char)b.waveform_points[i].high_value;
    }
    return {{"spp", dhex(b.samples_per_waveform_point)}, {"points", hex_of(raw)},
            {"max", json::array({b.maximum_point.low_value, b.maximum_point.mid_value, b.maximum_point.high_value})},
            {"extra", hex_of(b.extra_data)}};
}
ev2::overview_waveform_data_blob ow_from_json(const json& j)
{
    ev2::overview_waveform_data_blob b{};
    b.samples_per_waveform_point = jd(j.at("spp"));
    auto raw = js(j.at("points"));
    b.waveform_points.resize(raw.size() / 3);
    for (size_t i = 0; i < b.waveform_points.size(); ++i)
        b.waveform_points[i] = ev2::overview_waveform_point{(uint8_t)raw[3 * i], (uint8_t)raw[3 * i + 1], (uint8_t)raw[3 * i + 2]};
    b.maximum_point = ev2::overview_waveform_point{
        (uint8_t)j.at("max")[0].get<int>(), (uint8_t)j.at("max")[1].get<int>(), (uint8_t)j.at("max")[2].get<int>()};
    b.extra_data = unhex_bytes(j.value("extra", std::string{}));
    return b;
}

// ---------------------------------------------------------------- v1 structs
static json v1bd_j(const v1::beat_data& b)
{
    return {{"sample_rate", od_j(b.sample_rate)}, {"sample_count", od_j(b.sample_count)},
            {"default", beatgrid_to_json(b.default_beatgrid)}, {"adjusted", beatgrid_to_json(b.adjusted_beatgrid)}};
}
static v1::beat_data j_v1bd(const json& j)
{
    v1::beat_data b;
    b.sample_rate = jod(j.at("sample_rate"));
    b.sample_count = jod(j.at("sample_count"));
    b.default_beatgrid = beatgrid_from_json(j.at("default"));
    b.adjusted_beatgrid = beatgrid_from_json(j.at("adjusted"));
    return b;
}
static json v1hr_j(const v1::high_res_waveform_data& b)
{
    return {{"spe", dhex(b.samples_per_entry)}, {"waveform", waveform_to_json(b.waveform)}};
}
static v1::high_res_waveform_data j_v1hr(const json& j)
{
    v1::high_res_waveform_data b;
    b.samples_per_entry = jd(j.at("spe"));
    b.waveform = waveform_from_json(j.at("waveform"));
    return b;
}
static json v1ow_j(const v1::overview_waveform_data& b)
{
    return {{"spe", dhex(b.samples_per_entry)}, {"waveform", waveform_to_json(b.waveform)}};
}
static v1::overview_waveform_data j_v1ow(const json& j)
{
    v1::overview_waveform_data b;
    b.samples_per_entry = jd(j.at("spe"));
    b.waveform = waveform_from_json(j.at("waveform"));
    return b;
}
static json v1lp_j(const v1::loops_data& b)
{
    json a = json::array();
    for (auto& l : b.loops) a.push_back(loop_to_json(l));
    return {{"loops", a}};
}
static v1::loops_data j_v1lp(const json& j)
{
    v1::loops_data b;
    for (auto& l : j.at("loops")) b.loops.push_back(loop_from_json(l));
    return b;
}
static json v1qc_j(const v1::quick_cues_data& b)
{
    json a = json::array();
    for (auto& c : b.hot_cues) a.push_back(hot_cue_to_json(c));
    return {{"cues", a}, {"adjusted", dhex(b.adjusted_main_cue)}, {"default", dhex(b.default_main_cue)}};
}
static v1::quick_cues_data j_v1qc(const json& j)
{
    v1::quick_cues_data b;
    for (auto& c : j.at("cues")) b.hot_cues.push_back(hot_cue_from_json(c));
    b.adjusted_main_cue = jd(j.at("adjusted"));
    b.default_main_cue = jd(j.at("default"));
    return b;
}
static json v1td_j(const v1::track_data& b)
{
    return {{"sample_rate", od_j(b.sample_rate)}, {"sample_count", oi_j(b.sample_count)},
            {"average_loudness", od_j(b.average_loudness)},
            {"key", b.key ? json((int)*b.key) : json(nullptr)}};
}
static v1::track_data j_v1td(const json& j)
{
    v1::track_data b;
    b.sample_rate = jod(j.at("sample_rate"));
    b.sample_count = joi<int64_t>(j.at("sample_count"));
    b.average_loudness = jod(j.at("average_loudness"));
    if (!j.at("key").is_null()) b.key = static_cast<dj::musical_key>(j["key"].get<int>());
    return b;
}

// ---------------------------------------------------------------- generic dispatch by kind
struct Codec
{
    std::function<std::vector<std::byte>(const json&)> encode;            // value -> bytes
    std::function<json(const std::vector<std::byte>&)> decode;            // bytes -> value
    std::function<std::vector<std::byte>(const std::vector<std::byte>&)> reencode;
};

static const std::map<std::string, Codec>& codecs()
{
    static const std::map<std::string, Codec> m = {
        {"v2_track_data",
         {[](const json& v) { return td_from_json(v).to_blob(); },
          [](const std::vector<std::byte>& b) { return td_to_json(ev2::track_data_blob::from_blob(b)); },
          [](const std::vector<std::byte>& b) { return ev2::track_data_blob::from_blob(b).to_blob(); }}},
        {"v2_beat_data",
         {[](const json& v) { return bd_from_json(v).to_blob(); },
          [](const std::vector<std::byte>& b) { return bd_to_json(ev2::beat_data_blob::from_blob(b)); },
          [](const std::vector<std::byte>& b) { return ev2::beat_data_blob::from_blob(b).to_blob(); }}},
        {"v2_quick_cues",
         {[](const json& v) { return qc_from_json(v).to_blob(); },
          [](const std::vector<std::byte>& b) { return qc_to_json(ev2::quick_cues_blob::from_blob(b)); },
          [](const std::vector<std::byte>& b) { return ev2::quick_cues_blob::from_blob(b).to_blob(); }}},
        {"v2_loops",
         {[](const json& v) { return lp_from_json(v).to_blob(); },
          [](const std::vector<std::byte>& b) { return lp_to_json(ev2::loops_blob::from_blob(b)); },
          [](const std::vector<std::byte>& b) { return ev2::loops_blob::from_blob(b).to_blob(); }}},
        {"v2_overview",
         {[](const json& v) { return ow_from_json(v).to_blob(); },
          [](const std::vector<std::byte>& b) { return ow_to_json(ev2::overview_waveform_data_blob::from_blob(b)); },
          [](const std::vector<std::byte>& b) { return ev2::overview_waveform_data_blob::from_blob(b).to_blob(); }}},
        {"v1_beat_data",
         {[](const json& v) { return j_v1bd(v).encode(); },
          [](const std::vector<std::byte>& b) { return v1bd_j(v1::beat_data::decode(b)); },
          [](const std::vector<std::byte>& b) { return v1::beat_data::decode(b).encode(); }}},
        {"v1_high_res",
         {[](const json& v) { return j_v1hr(v).encode(); },
          [](const std::vector<std::byte>& b) { return v1hr_j(v1::high_res_waveform_data::decode(b)); },
          [](const std::vector<std::byte>& b) { return v1::high_res_waveform_data::decode(b).encode(); }}},
        {"v1_loops",
         {[](const json& v) { return j_v1lp(v).encode(); },
          [](const std::vector<std::byte>& b) { return v1lp_j(v1::loops_data::decode(b)); },
          [](const std::vector<std::byte>& b) { return v1::loops_data::decode(b).encode(); }}},
        {"v1_overview",
         {[](const json& v) { return j_v1ow(v).encode(); },
          [](const std::vector<std::byte>& b) { return v1ow_j(v1::overview_waveform_data::decode(b)); },
          [](const std::vector<std::byte>& b) { return v1::overview_waveform_data::decode(b).encode(); }}},
        {"v1_quick_cues",
         {[](const json& v) { return j_v1qc(v).encode(); },
          [](const std::vector<std::byte>& b) { return v1qc_j(v1::quick_cues_data::decode(b)); },
          [](const std::vector<std::byte>& b) { return v1::quick_cues_data::decode(b).encode(); }}},
        {"v1_track_data",
         {[](const json& v) { return j_v1td(v).encode(); },
          [](const std::vector<std::byte>& b) { return v1td_j(v1::track_data::decode(b)); },
          [](const std::vector<std::byte>& b) { return v1::track_data::decode(b).encode(); }}},
        {"zlib",
         {[](const json& v) { return djinterop::engine::zlib_compress(unhex_bytes(v.get<std::string>())); },
          [](const std::vector<std::byte>& b) { return json(hex_of(djinterop::engine::zlib_uncompress(b))); },
          [](const std::vector<std::byte>& b) {
              return djinterop::engine::zlib_compress(djinterop::engine::zlib_uncompress(b));
          }}},
    };
    return m;
}

// Decoders with an allocation failpoint armed ONLY while the library's own decoding function runs (the conversion of
// the result to JSON is harness code and runs after the failpoint is disarmed).
using OomDecoder = std::function<json(const std::vector<std::byte>&, long long, bool*)>;
template <class From, class ToJson>
static OomDecoder oom_dec(From from, ToJson to_json)
{
    return [from, to_json](const std::vector<std::byte>& b, long long k, bool* fired) -> json {
        auto obj = [&] {
            struct Disarm { bool* f; ~Disarm() { *f = shim_disarm_alloc_fault(); } } d{fired};
            shim_arm_alloc_fault(k);
            return from(b);
        }();
        return to_json(obj);
    };
}
static const std::map<std::string, OomDecoder>& oom_decoders()
{
    static const std::map<std::string, OomDecoder> m = {
        {"v2_track_data", oom_dec([](auto& b) { return ev2::track_data_blob::from_blob(b); }, [](auto& o) { return td_to_json(o); })},
        {"v2_beat_data", oom_dec([](auto& b) { return ev2::beat_data_blob::from_blob(b); }, [](auto& o) { return bd_to_json(o); })},
        {"v2_quick_cues", oom_dec([](auto& b) { return ev2::quick_cues_blob::from_blob(b); }, [](auto& o) { return qc_to_json(o); })},
        {"v2_loops", oom_dec([](auto& b) { return ev2::loops_blob::from_blob(b); }, [](auto& o) { return lp_to_json(o); })},
        {"v2_overview", oom_dec([](auto& b) { return ev2::overview_waveform_data_blob::from_blob(b); }, [](auto& o) { return ow_to_json(o); })},
        {"v1_beat_data", oom_dec([](auto& b) { return v1::beat_data::decode(b); }, [](auto& o) { return v1bd_j(o); })},
        {"v1_high_res", oom_dec([](auto& b) { return v1::high_res_waveform_data::decode(b); }, [](auto& o) { return v1hr_j(o); })},
        {"v1_loops", oom_dec([](auto& b) { return v1::loops_data::decode(b); }, [](auto& o) { return v1lp_j(o); })},
        {"v1_overview", oom_dec([](auto& b) { return v1::overview_waveform_data::decode(b); }, [](auto& o) { return v1ow_j(o); })},
        {"v1_quick_cues", oom_dec([](auto& b) { return v1::quick_cues_data::decode(b); }, [](auto& o) { return v1qc_j(o); })},
        {"v1_track_data", oom_dec([](auto& b) { return v1::track_data::decode(b); }, [](auto& o) { return v1td_j(o); })},
        {"zlib", oom_dec([](auto& b) { return djinterop::engine::zlib_uncompress(b); }, [](auto& o) { return json(hex_of(o)); })},
    };
    return m;
}

static json outcome_exc(const std::exception& e)
{
    auto x = exception_to_json(e);
    return {{"exc", x["type"]}, {"is", x["is"]}};
}

// Annotates a per-item result with the monitor flags raised while it ran, and
// clears the per-item counters.
static void take_flags(json& r)
{
    if (g_shim.inflate_budget_exceeded) r["inflate_budget_exceeded"] = true;
    if (g_shim.inflate_window_bad) r["inflate_window_bad"] = g_shim.inflate_window_msg;
    if (g_shim.big_alloc) r["big_alloc"] = true;
    g_shim.inflate_budget_exceeded = false;
    g_shim.inflate_window_bad = false;
    g_shim.inflate_window_msg.clear();
    g_shim.big_alloc = false;
    g_shim.inflate_calls = 0;
}

// Harness-side container (4-byte big-endian length + zlib stream), built with
// zlib's own compress(), never with the library's zlib_compress().
static std::string harness_wrap(const std::string& payload)
{
    uLongf bound = compressBound(payload.size());
    std::string out;
    out.resize(4 + bound);
    uint32_t n = (uint32_t)payload.size();
    out[0] = (char)(n >> 24);
    out[1] = (char)(n >> 16);
    out[2] = (char)(n >> 8);
    out[3] = (char)n;
    if (compress2((Bytef*)&out[4], &bound, (const Bytef*)payload.data(), payload.size(), 1) != Z_OK)
        throw harness_error("compress2 failed");
    out.resize(4 + bound);
    return out;
}

static std::vector<std::byte> exact_copy(const std::string& raw)
{
    // exactly-sized heap allocation: the red zone sits directly behind the last byte
    std::vector<std::byte> v(raw.size());
    if (!raw.empty()) std::memcpy(v.data(), raw.data(), raw.size());
    return v;
}

static long long g_seq = 0;  // index of the input within the current op (for resuming after a death)
static const char* run_decode_compact(const Codec& c, const std::string& kind, const std::string& raw, json* detail)
{
    witness_set((kind + "#" + std::to_string(g_seq)).c_str(), raw.data(), raw.size());
    const char* out;
    try
    {
        auto in = exact_copy(raw);
        auto v = c.decode(in);
        out = "ok";
    }
    catch (const std::exception& e)
    {
        out = "exc";
        if (detail) *detail = outcome_exc(e);
    }
    catch (...)
    {
        out = "nonstd";
    }
    return out;
}

// The same decode with the k-th allocation inside it failing (memory pressure).  Returns the outcome as above and
// whether the failpoint was reached; *value receives the dump of a returned value.
static const char* run_decode_oom(const Codec& c, const std::string& kind, const std::string& raw, long long k, bool* fired,
                                  std::string* value, json* detail)
{
    witness_set((kind + "#" + std::to_string(g_seq) + ":alloc-failure-at-" + std::to_string(k)).c_str(), raw.data(), raw.size());
    const char* out;
    auto in = exact_copy(raw);
    try
    {
        json v = oom_decoders().at(kind)(in, k, fired);
        if (value) *value = v.dump();
        out = "ok";
    }
    catch (const std::exception& e)
    {
        out = "exc";
        if (detail) *detail = outcome_exc(e);
    }
    catch (...)
    {
        out = "nonstd";
    }
    return out;
}

bool dispatch_codec(State& st, const std::string& op, const json& a, json& ret)
{
    if (op == "zlib_sweep")
    {
        // Round trips of  fill x N  +  tail  through zlib_compress / zlib_uncompress for every N in [from, to): the
        // tail (noisy, tens of KiB) makes the stream span several working buffers, and N walks the position of the
        // buffer boundaries through every residue.  Reports the N that fail and how often inflate() met the
        // "input exhausted exactly when the output buffer is full" alignment (Z_BUF_ERROR, not fatal).
        auto tail = js(a.at("tail"));
        long long from = a.at("from").get<long long>(), to = a.at("to").get<long long>();
        unsigned char fill = (unsigned char)a.value("fill", 0);
        long long before = g_shim.inflate_buf_errors;
        json fails = json::array();
        long long n_ok = 0;
        for (long long N = from; N < to; ++N)
        {
            std::vector<std::byte> data((size_t)N + tail.size(), std::byte{fill});
            std::memcpy(data.data() + N, tail.data(), tail.size());
            g_shim.inflate_calls = 0;
            std::string what;
            try
            {
                auto c = djinterop::engine::zlib_compress(data);
                auto u = djinterop::engine::zlib_uncompress(c);
                if (u == data)
                    ++n_ok;
                else
                    what = "mismatch";
            }
            catch (const std::exception& e)
            {
                what = std::string("threw ") + exception_to_json(e)["type"].get<std::string>() + ": " + e.what();
            }
            if (!what.empty() && fails.size() < 8) fails.push_back({{"N", N}, {"what", what}});
            else if (!what.empty()) fails.push_back(N);
        }
        g_shim.inflate_budget_exceeded = false;
        ret["ok"] = n_ok;
        ret["failures"] = fails;
        ret["alignment_events"] = g_shim.inflate_buf_errors - before;
        return true;
    }
    if (op == "codec")
    {
        // {"fn": encode|decode|roundtrip|reencode|decode_reencode, "kind": K, "items": [...]}
        auto kind = a.at("kind").get<std::string>();
        auto fn = a.at("fn").get<std::string>();
        auto it = codecs().find(kind);
        if (it == codecs().end()) throw harness_error("unknown codec kind " + kind);
        auto& c = it->second;
        json out = json::array();
        for (auto& item : a.at("items"))
        {
            json r;
            try
            {
                if (fn == "encode")
                {
                    auto s = item.dump();
                    witness_set((kind + ":encode").c_str(), s.data(), s.size());
                    r["bytes"] = hex_of(c.encode(item));
                }
                else if (fn == "decode")
                {
                    auto raw = js(item);
                    witness_set(kind.c_str(), raw.data(), raw.size());
                    r["value"] = c.decode(exact_copy(raw));
                }
                else if (fn == "roundtrip")
                {
                    auto s = item.dump();
                    witness_set((kind + ":roundtrip").c_str(), s.data(), s.size());
                    auto bytes = c.encode(item);
                    r["bytes"] = hex_of(bytes);
                    r["value"] = c.decode(bytes);
                }
                else if (fn == "reencode")
                {
                    auto raw = js(item);
                    witness_set((kind + ":reencode").c_str(), raw.data(), raw.size());
                    auto in = exact_copy(raw);
                    r["value"] = c.decode(in);
                    r["bytes"] = hex_of(c.reencode(in));
                }
                else
                    throw harness_error("unknown codec fn");
            }
            catch (const harness_error&)
            {
                throw;
            }
            catch (const std::exception& e)
            {
                json x = outcome_exc(e);
                for (auto& [k, v] : x.items()) r[k] = v;
            }
            catch (...)
            {
                r["exc"] = "non-std";
                r["nonstd"] = true;
            }
            take_flags(r);
            out.push_back(std::move(r));
        }
        ret = out;
        return true;
    }
    if (op == "mt_codec")
    {
        // {"lists": [[{"kind": K, "blob": hex}, ...], ...], "rounds": r}: every thread decodes and re-encodes its own list of
        // valid blobs at the same time as the others (race-detector build); the re-encoded bytes come back per thread.
        const auto& lists = a.at("lists");
        size_t nt = lists.size();
        int rounds = a.value("rounds", 1);
        std::vector<json> outs(nt);
        std::atomic<int> ready{0};
        std::vector<std::thread> threads;
        for (size_t t = 0; t < nt; ++t)
            threads.emplace_back([&, t] {
                t_shim_bypass = true;
                std::vector<std::pair<const Codec*, std::vector<std::byte>>> work;
                for (auto& it : lists[t])
                {
                    auto f = codecs().find(it.at("kind").get<std::string>());
                    if (f == codecs().end()) continue;
                    work.emplace_back(&f->second, exact_copy(js(it.at("blob"))));
                }
                ++ready;
                while (ready.load() < (int)nt) std::this_thread::yield();
                json out = json::array();
                for (int r = 0; r < rounds; ++r)
                    for (auto& [c, in] : work)
                    {
                        std::string res;
                        try
                        {
                            res = hex_of(c->reencode(in));
                        }
                        catch (const std::exception& e)
                        {
                            res = std::string("exc:") + e.what();
                        }
                        if (r == rounds - 1) out.push_back(res);
                    }
                outs[t] = std::move(out);
            });
        for (auto& th : threads) th.join();
        ret = json(outs);
        return true;
    }
    if (op == "decode_many" && a.contains("stack_kb") && !a.value("_on_thread", false))
    {
        // the same op on a thread whose stack is as small as other platforms give their threads (musl: 128 KiB, macOS secondary
        // threads: 512 KiB): a decoder that keeps a large buffer on the stack overflows there
        struct Arg { State* st; const std::string* op; json a; json* ret; std::exception_ptr err; } arg{&st, &op, a, &ret, nullptr};
        arg.a["_on_thread"] = true;
        pthread_attr_t attr;
        pthread_attr_init(&attr);
        pthread_attr_setstacksize(&attr, (size_t)a.at("stack_kb").get<long long>() * 1024);
        pthread_t th;
        auto body = [](void* p) -> void* {
            auto* g = static_cast<Arg*>(p);
            try { dispatch_codec(*g->st, *g->op, g->a, *g->ret); }
            catch (...) { g->err = std::current_exception(); }
            return nullptr;
        };
        if (pthread_create(&th, &attr, body, &arg) != 0) throw harness_error("cannot create the small-stack thread");
        pthread_join(th, nullptr);
        pthread_attr_destroy(&attr);
        if (arg.err) std::rethrow_exception(arg.err);
        return true;
    }
    if (op == "decode_many")
    {
        // compact outcomes for many inputs: {"kind": K, "inputs": [hex...]} ->
        // {"n":..., "ok":..., "exc": {type: n}, "bad": [{"i":..., ...}]}
        auto kind = a.at("kind").get<std::string>();
        auto it = codecs().find(kind);
        if (it == codecs().end()) throw harness_error("unknown codec kind " + kind);
        long long n = 0, ok = 0;
        std::map<std::string, long long> exc;
        json bad = json::array();
        long long idx = 0;
        bool wrap = a.value("wrap", false);
        long long skip = a.value("skip", 0LL);
        long long oom = a.value("oom", 0LL), oom_fired = 0, oom_ok = 0;
        std::map<std::string, long long> oom_exc;
        g_seq = -1;
        for (auto& h : a.at("inputs"))
        {
            ++g_seq;
            if (g_seq < skip) { ++idx; continue; }
            auto raw = js(h);
            if (wrap) raw = harness_wrap(raw);
            json detail;
            const char* o = run_decode_compact(it->second, kind, raw, &detail);
            ++n;
            json flags = json::object();
            take_flags(flags);
            if (!strcmp(o, "ok"))
                ++ok;
            else if (!strcmp(o, "exc"))
                ++exc[detail["exc"].get<std::string>()];
            if (!strcmp(o, "nonstd") || !flags.empty())
            {
                flags["i"] = idx;
                flags["outcome"] = o;
                if (bad.size() < 50) bad.push_back(flags);
            }
            if (oom > 0)
            {
                // allocation-failure sweep: the k-th allocation inside the decoder fails, for k = 1, 2, ... until the
                // decoder finishes without reaching the failpoint; a returned value must be the fault-free one
                std::string base_val;
                bool base_ok = false;
                try
                {
                    base_val = it->second.decode(exact_copy(raw)).dump();
                    base_ok = true;
                }
                catch (const std::exception&)
                {
                }
                json f0 = json::object();
                take_flags(f0);
                for (long long k = 1; k <= oom; ++k)
                {
                    bool fired = false;
                    std::string val;
                    json det;
                    const char* oo = run_decode_oom(it->second, kind, raw, k, &fired, &val, &det);
                    json fl = json::object();
                    take_flags(fl);
                    if (!fired) break;
                    ++oom_fired;
                    ++n;
                    if (!strcmp(oo, "exc"))
                        ++oom_exc[det["exc"].get<std::string>()];
                    else if (!strcmp(oo, "ok"))
                    {
                        ++oom_ok;
                        if (!base_ok || val != base_val) fl["oom_wrong_value"] = true;
                    }
                    if (!strcmp(oo, "nonstd") || !fl.empty())
                    {
                        fl["i"] = idx;
                        fl["outcome"] = oo;
                        fl["alloc_failure_at"] = k;
                        if (bad.size() < 50) bad.push_back(fl);
                    }
                }
            }
            ++idx;
        }
        ret["n"] = n;
        ret["ok"] = ok;
        ret["exc"] = exc;
        ret["bad"] = bad;
        if (oom > 0)
        {
            ret["oom_fired"] = oom_fired;
            ret["oom_exc"] = oom_exc;
            ret["oom_ok"] = oom_ok;
        }
        return true;
    }
    if (op == "decode_mut")
    {
        // systematic mutations of one base input, generated here to keep the
        // case files small: every truncation, or every single-byte
        // substitution with 8 values; optionally of the payload, wrapped in a
        // valid container by the harness.
        auto kind = a.at("kind").get<std::string>();
        auto it = codecs().find(kind);
        if (it == codecs().end()) throw harness_error("unknown codec kind " + kind);
        std::string base = js(a.at("base"));
        bool wrap = a.value("wrap", false);
        auto mode = a.at("mode").get<std::string>();
        long long n = 0, ok = 0;
        std::map<std::string, long long> exc;
        json bad = json::array();
        long long skip = a.value("skip", 0LL);
        g_seq = -1;
        auto one = [&](const std::string& m) {
            ++g_seq;
            if (g_seq < skip) return;
            std::string raw = wrap ? harness_wrap(m) : m;
            json detail;
            const char* o = run_decode_compact(it->second, kind, raw, &detail);
            ++n;
            json flags = json::object();
            take_flags(flags);
            if (!strcmp(o, "ok"))
                ++ok;
            else if (!strcmp(o, "exc"))
                ++exc[detail["exc"].get<std::string>()];
            if (!strcmp(o, "nonstd") || !flags.empty())
            {
                flags["input"] = hex_of(raw);
                flags["outcome"] = o;
                if (bad.size() < 50) bad.push_back(flags);
            }
        };
        if (mode == "trunc")
        {
            for (size_t k = 0; k <= base.size(); ++k) one(base.substr(0, k));
        }
        else if (mode == "subst")
        {
            for (size_t k = 0; k < base.size(); ++k)
            {
                unsigned char b = (unsigned char)base[k];
                unsigned char vals[8] = {0x00, 0x01, 0x7f, 0x80, 0xff, (unsigned char)(b ^ 1), (unsigned char)(b ^ 0x80), (unsigned char)(b + 1)};
                for (unsigned char v : vals)
                {
                    if (v == b) continue;
                    std::string m = base;
                    m[k] = (char)v;
                    one(m);
                }
            }
        }
        else if (mode == "insert_delete")
        {
            for (size_t k = 0; k < base.size(); ++k)
            {
                std::string m = base;
                m.erase(k, 1);
                one(m);
                std::string m2 = base;
                m2.insert(k, 1, '\0');
                one(m2);
            }
        }
        else
            throw harness_error("unknown mutation mode");
        ret["n"] = n;
        ret["ok"] = ok;
        ret["exc"] = exc;
        ret["bad"] = bad;
        return true;
    }
    if (op == "decode_enum")
    {
        // exhaustive enumeration of all strings of length `len` over `alphabet`
        // (hex; empty = all 256 byte values), optionally behind a fixed prefix.
        auto kind = a.at("kind").get<std::string>();
        auto it = codecs().find(kind);
        if (it == codecs().end()) throw harness_error("unknown codec kind " + kind);
        int len = a.at("len").get<int>();
        std::string alpha = js(a.value("alphabet", std::string{}));
        if (alpha.empty())
            for (int i = 0; i < 256; ++i) alpha.push_back((char)i);
        std::string prefix = js(a.value("prefix", std::string{}));
        std::string suffix = js(a.value("suffix", std::string{}));
        bool wrap = a.value("wrap", false);
        long long skip = a.value("skip", 0LL);
        g_seq = -1;
        std::vector<int> idx(len, 0);
        long long n = 0, ok = 0;
        std::map<std::string, long long> exc;
        json bad = json::array();
        for (;;)
        {
            ++g_seq;
            if (g_seq < skip)
            {
                int p0 = len - 1;
                while (p0 >= 0 && ++idx[p0] == (int)alpha.size()) idx[p0--] = 0;
                if (p0 < 0) break;
                continue;
            }
            std::string raw = prefix;
            for (int i = 0; i < len; ++i) raw.push_back(alpha[idx[i]]);
            raw += suffix;
            if (wrap) raw = harness_wrap(raw);
            json detail;
            const char* o = run_decode_compact(it->second, kind, raw, &detail);
            ++n;
            json flags = json::object();
            take_flags(flags);
            if (!strcmp(o, "ok"))
                ++ok;
            else if (!strcmp(o, "exc"))
                ++exc[detail["exc"].get<std::string>()];
            if (!strcmp(o, "nonstd") || !flags.empty())
            {
                flags["input"] = hex_of(raw);
                flags["outcome"] = o;
                if (bad.size() < 50) bad.push_back(flags);
            }
            int p = len - 1;
            while (p >= 0 && ++idx[p] == (int)alpha.size()) idx[p--] = 0;
            if (p < 0) break;
        }
        ret["n"] = n;
        ret["ok"] = ok;
        ret["exc"] = exc;
        ret["bad"] = bad;
        return true;
    }
    return false;
}
