// Shared declarations for the dj_exec executor.
#pragma once
#include <cstdint>
#include <cstring>
#include <map>
#include <memory>
#include <optional>
#include <set>
#include <stdexcept>
#include <string>
#include <vector>

#include <nlohmann/json.hpp>

#include <djinterop/djinterop.hpp>
#include <djinterop/engine/engine.hpp>
#include <djinterop/engine/v2/engine_library.hpp>

using json = nlohmann::json;
namespace dj = djinterop;
namespace ev2 = djinterop::engine::v2;

// ---------------------------------------------------------------- encoding
inline std::string to_hex(const void* p, size_t n)
{
    static const char* d = "0123456789abcdef";
    std::string s;
    s.resize(n * 2);
    auto* b = static_cast<const unsigned char*>(p);
    for (size_t i = 0; i < n; ++i)
    {
        s[2 * i] = d[b[i] >> 4];
        s[2 * i + 1] = d[b[i] & 15];
    }
    return s;
}
inline std::string hex_of(const std::string& s) { return to_hex(s.data(), s.size()); }
inline std::string hex_of(const std::vector<std::byte>& v) { return to_hex(v.data(), v.size()); }
inline int hexval(char c)
{
    if (c >= '0' && c <= '9') return c - '0';
    if (c >= 'a' && c <= 'f') return c - 'a' + 10;
    if (c >= 'A' && c <= 'F') return c - 'A' + 10;
    throw std::runtime_error("bad hex digit");
}
inline std::string unhex(const std::string& h)
{
    if (h.size() % 2) throw std::runtime_error("odd hex length");
    std::string s;
    s.resize(h.size() / 2);
    for (size_t i = 0; i < s.size(); ++i)
        s[i] = static_cast<char>(hexval(h[2 * i]) * 16 + hexval(h[2 * i + 1]));
    return s;
}
inline std::vector<std::byte> unhex_bytes(const std::string& h)
{
    auto s = unhex(h);
    std::vector<std::byte> v(s.size());
    if (!s.empty()) std::memcpy(v.data(), s.data(), s.size());
    return v;
}
inline std::string dhex(double d)
{
    uint64_t u;
    std::memcpy(&u, &d, 8);
    char buf[17];
    snprintf(buf, sizeof buf, "%016llx", (unsigned long long)u);
    return buf;
}
inline double undhex(const std::string& s)
{
    uint64_t u = std::stoull(s, nullptr, 16);
    double d;
    std::memcpy(&d, &u, 8);
    return d;
}
inline double jd(const json& j) { return undhex(j.get<std::string>()); }
inline std::string js(const json& j) { return unhex(j.get<std::string>()); }
inline std::optional<std::string> jos(const json& j)
{
    if (j.is_null()) return std::nullopt;
    return js(j);
}
inline json os_j(const std::optional<std::string>& s) { return s ? json(hex_of(*s)) : json(nullptr); }
inline std::optional<double> jod(const json& j)
{
    if (j.is_null()) return std::nullopt;
    return jd(j);
}
inline json od_j(const std::optional<double>& d) { return d ? json(dhex(*d)) : json(nullptr); }
template <typename T>
inline std::optional<T> joi(const json& j)
{
    if (j.is_null()) return std::nullopt;
    return j.get<T>();
}
template <typename T>
inline json oi_j(const std::optional<T>& v) { return v ? json(*v) : json(nullptr); }

using tp_t = std::chrono::system_clock::time_point;
inline tp_t jtp(const json& j) { return tp_t{std::chrono::system_clock::duration{j.get<int64_t>()}}; }
inline json tp_j(const tp_t& t) { return json((int64_t)t.time_since_epoch().count()); }
inline std::optional<tp_t> jotp(const json& j)
{
    if (j.is_null()) return std::nullopt;
    return jtp(j);
}
inline json otp_j(const std::optional<tp_t>& t) { return t ? tp_j(*t) : json(nullptr); }

// ---------------------------------------------------------------- snapshot <-> json (ops_api.cpp)
dj::track_snapshot snapshot_from_json(const json& j);
json snapshot_to_json(const dj::track_snapshot& s);
json hot_cue_to_json(const std::optional<dj::hot_cue>& c);
std::optional<dj::hot_cue> hot_cue_from_json(const json& j);
json loop_to_json(const std::optional<dj::loop>& c);
std::optional<dj::loop> loop_from_json(const json& j);
json beatgrid_to_json(const std::vector<dj::beatgrid_marker>& g);
std::vector<dj::beatgrid_marker> beatgrid_from_json(const json& j);
json waveform_to_json(const std::vector<dj::waveform_entry>& w);
std::vector<dj::waveform_entry> waveform_from_json(const json& j);

// v2 blob <-> json (ops_codec.cpp)
json td_to_json(const ev2::track_data_blob& b);
ev2::track_data_blob td_from_json(const json& j);
json bd_to_json(const ev2::beat_data_blob& b);
ev2::beat_data_blob bd_from_json(const json& j);
json qc_to_json(const ev2::quick_cues_blob& b);
ev2::quick_cues_blob qc_from_json(const json& j);
json lp_to_json(const ev2::loops_blob& b);
ev2::loops_blob lp_from_json(const json& j);
json ow_to_json(const ev2::overview_waveform_data_blob& b);
ev2::overview_waveform_data_blob ow_from_json(const json& j);

struct harness_error : std::runtime_error
{
    using std::runtime_error::runtime_error;
};

// ---------------------------------------------------------------- state
struct State
{
    std::optional<dj::database> db;
    std::optional<ev2::engine_library> lib;  // 2.x only, when created via library ops
    // table objects obtained once and kept (ops carrying "held": true use them; all others obtain a fresh object per call)
    std::optional<ev2::track_table> held_tt;
    std::optional<ev2::playlist_table> held_pt;
    std::optional<ev2::playlist_entity_table> held_pe;
    std::string schema_name;
    bool is_v2 = false;
    std::map<std::string, dj::track> tracks;
    std::map<std::string, dj::crate> crates;
    std::set<std::string> names;   // crate names in play (raw bytes)
    std::set<std::string> paths;   // relative paths in play
    std::set<int64_t> ids;         // extra ids in play
    std::set<int64_t> held_ids;    // ids of handles that a reopen released (count as "known" whatever their size)
    std::optional<dj::track_snapshot> last_snapshot;  // result of the latest "snapshot" op
    void reset()
    {
        tracks.clear();
        crates.clear();
        held_tt.reset();
        held_pt.reset();
        held_pe.reset();
        lib.reset();
        db.reset();
        names.clear();
        paths.clear();
        ids.clear();
        last_snapshot.reset();
        guard = false;
    }
    dj::database& D()
    {
        if (!db) throw harness_error("harness: no database");
        return *db;
    }
    // With `guard` on, an op that names a handle of a removed entity is refused by the harness
    // (the documented contract forbids every call except copy/assign/destroy/id()/is_valid() on it).
    bool guard = false;
    dj::track& T(const std::string& h);
    dj::crate& C(const std::string& h);
};


inline dj::track& State::T(const std::string& h)
{
    auto it = tracks.find(h);
    if (it == tracks.end()) throw harness_error("harness: no track handle " + h);
    if (guard && !it->second.is_valid()) throw harness_error("harness: guard: handle of a removed track " + h);
    return it->second;
}
inline dj::crate& State::C(const std::string& h)
{
    auto it = crates.find(h);
    if (it == crates.end()) throw harness_error("harness: no crate handle " + h);
    if (guard && !it->second.is_valid()) throw harness_error("harness: guard: handle of a removed crate " + h);
    return it->second;
}

std::optional<djinterop::engine::engine_schema> schema_by_name(const std::string& n);

// dispatchers: return true if handled
bool dispatch_api(State& st, const std::string& op, const json& a, json& ret);
bool dispatch_codec(State& st, const std::string& op, const json& a, json& ret);
bool dispatch_table(State& st, const std::string& op, const json& a, json& ret);

// table-API view of a 2.x library (ops_table.cpp); null when the case holds no engine_library
json observe_tables(State& st, const json& a);

json exception_to_json(const std::exception& e);
std::string demangle(const char* n);

// ---------------------------------------------------------------- shims
struct ShimCounters
{
    long long stmts = 0;          // statements begun in the current op
    long long stmts_ro = 0;       // of which read-only
    long long stmts_write = 0;    // of which not read-only (incl. BEGIN/COMMIT)
    long long steps = 0;
    long long inflate_calls = 0;
    long long inflate_buf_errors = 0;   // inflate() answered Z_BUF_ERROR ("no progress possible", not fatal): cumulative
    bool fault_fired = false;
    bool step_budget_exceeded = false;
    bool inflate_budget_exceeded = false;
    bool inflate_window_bad = false;
    std::string inflate_window_msg;
    bool big_alloc = false;
    std::string fault_sql;
};
extern ShimCounters g_shim;
void shim_begin_op();
void shim_arm_fault(long long k, int code, bool writes_only);
void shim_disarm();
void shim_set_fault_site(bool at_prepare);
void shim_arm_alloc_fault(long long k);
bool shim_disarm_alloc_fault();
void shim_set_step_budget(long long vdbe_steps);
void shim_set_inflate_budget(long long calls);
// set on worker threads of the multi-threaded codec op: the (single-threaded) monitors' counters are bypassed there
extern thread_local bool t_shim_bypass;
std::vector<struct sqlite3*> shim_connections();
long long shim_total_changes();
int shim_any_in_txn();
std::vector<std::string> shim_recent_sql();
void witness_set(const char* tag, const void* data, size_t n);
void witness_init(const char* path);
