// dj_exec: runs operation scripts against the real library and logs events.
//
//   dj_exec <cases.jsonl> [--witness <file>]
//
// Input: one case per line: {"id":..., "ops":[{"op":..., ...}, ...]}.
// Output (stdout, one JSON document per line, flushed per line):
//   {"case": id}
//   {"i": n, "op": name, "ret": ... | "exc": {...}, "sh": {...shim counters...}}
//   {"end": id}
// If the process dies, the op in progress is the one after the last event.
#include <cstdlib>
#include <filesystem>
#include <set>
#include <ctime>
#include <cxxabi.h>
#include <signal.h>
#include <unistd.h>

#include <cstdio>
#include <fstream>
#include <locale>
#include <iostream>
#include <typeinfo>

#include <sqlite_modern_cpp.h>

#include "common.hpp"

std::string demangle(const char* n)
{
    int status = 0;
    char* d = abi::__cxa_demangle(n, nullptr, nullptr, &status);
    std::string r = (status == 0 && d) ? d : n;
    free(d);
    return r;
}

json exception_to_json(const std::exception& e)
{
    json j;
    j["type"] = demangle(typeid(e).name());
    std::string w = e.what() ? e.what() : "";
    if (w.size() > 300) w.resize(300);
    j["what"] = hex_of(w);
    j["std"] = true;
    json is = json::array();
#define ISA(T, name) \
    if (dynamic_cast<const T*>(&e)) is.push_back(name)
    ISA(std::logic_error, "logic_error");
    ISA(std::invalid_argument, "invalid_argument");
    ISA(std::out_of_range, "out_of_range");
    ISA(std::length_error, "length_error");
    ISA(std::domain_error, "domain_error");
    ISA(std::runtime_error, "runtime_error");
    ISA(std::system_error, "system_error");
    ISA(std::bad_alloc, "bad_alloc");
    ISA(std::bad_optional_access, "bad_optional_access");
    ISA(sqlite::sqlite_exception, "sqlite_exception");
    ISA(dj::database_not_found, "database_not_found");
    ISA(dj::database_inconsistency, "database_inconsistency");
    ISA(dj::unsupported_database, "unsupported_database");
    ISA(dj::unsupported_operation, "unsupported_operation");
    ISA(dj::crate_deleted, "crate_deleted");
    ISA(dj::crate_already_exists, "crate_already_exists");
    ISA(dj::crate_invalid_parent, "crate_invalid_parent");
    ISA(dj::crate_invalid_name, "crate_invalid_name");
    ISA(dj::track_deleted, "track_deleted");
    ISA(dj::invalid_track_snapshot, "invalid_track_snapshot");
    ISA(dj::hot_cues_overflow, "hot_cues_overflow");
    ISA(dj::loops_overflow, "loops_overflow");
    ISA(harness_error, "harness_error");
#undef ISA
    j["is"] = is;
    if (auto* se = dynamic_cast<const sqlite::sqlite_exception*>(&e))
        j["sqlite_code"] = se->get_code();
    return j;
}

static json shim_json()
{
    json s;
    s["stmts"] = g_shim.stmts;
    s["ro"] = g_shim.stmts_ro;
    s["wr"] = g_shim.stmts_write;
    if (g_shim.fault_fired)
    {
        s["fault_fired"] = true;
        s["fault_sql"] = g_shim.fault_sql;
    }
    if (g_shim.step_budget_exceeded) s["step_budget_exceeded"] = true;
    if (g_shim.inflate_budget_exceeded) s["inflate_budget_exceeded"] = true;
    if (g_shim.inflate_window_bad) s["inflate_window_bad"] = g_shim.inflate_window_msg;
    if (g_shim.inflate_calls) s["inflate_calls"] = g_shim.inflate_calls;
    if (g_shim.big_alloc) s["big_alloc"] = true;
    s["txn"] = shim_any_in_txn();
    return s;
}

static void emit(const json& j)
{
    std::string s = j.dump(-1, ' ', false, json::error_handler_t::replace);
    s.push_back('\n');
    fwrite(s.data(), 1, s.size(), stdout);
    fflush(stdout);
}

// "$name" strings inside an op are replaced by the value an earlier op bound with "bind": "name".
static void substitute(json& j, const std::map<std::string, json>& vars)
{
    if (j.is_string())
    {
        const auto& s = j.get_ref<const std::string&>();
        if (s.size() > 1 && s[0] == '$')
        {
            auto it = vars.find(s.substr(1));
            if (it == vars.end()) throw harness_error("unbound variable " + s);
            j = it->second;
        }
    }
    else if (j.is_array() || j.is_object())
        for (auto& x : j) substitute(x, vars);
}

static void on_signal(int sig)
{
    const char* n = sig == SIGSEGV ? "SIGSEGV" : sig == SIGFPE ? "SIGFPE" : sig == SIGBUS ? "SIGBUS" : sig == SIGILL ? "SIGILL" : "SIGABRT";
    char buf[64];
    int l = snprintf(buf, sizeof buf, "\nHARNESS-SIGNAL %s\n", n);
    (void)!write(2, buf, l);
    signal(sig, SIG_DFL);
    raise(sig);
}

// The process-wide C++ locale is part of the environment a library runs in: applications commonly call
// std::locale::global(std::locale("")), and under en_US / de_DE numbers formatted through a stream are grouped
// ("1,005" / "1.005") and use a different decimal mark.  No such locale is installed in this image, so the facets are
// made by hand; the C locale (printf, strtod, SQLite, this harness' own JSON output) is not affected.
namespace
{
struct grouping_punct : std::numpunct<char>
{
    char sep, dec;
    grouping_punct(char s, char d) : sep(s), dec(d) {}
    char do_thousands_sep() const override { return sep; }
    std::string do_grouping() const override { return "\3"; }
    char do_decimal_point() const override { return dec; }
};
void install_locale(const std::string& name)
{
    if (name == "en_US-like")
        std::locale::global(std::locale(std::locale::classic(), new grouping_punct(',', '.')));
    else if (name == "de_DE-like")
        std::locale::global(std::locale(std::locale::classic(), new grouping_punct('.', ',')));
    else
        std::locale::global(std::locale::classic());
}
}  // namespace

int main(int argc, char** argv)
{
    if (argc < 2)
    {
        fprintf(stderr, "usage: dj_exec <cases.jsonl> [--witness file]\n");
        return 2;
    }
    for (int i = 2; i + 1 < argc; ++i)
        if (std::string(argv[i]) == "--witness") witness_init(argv[i + 1]);
#ifndef VERIF_SAN
    signal(SIGSEGV, on_signal);
    signal(SIGFPE, on_signal);
    signal(SIGBUS, on_signal);
    signal(SIGILL, on_signal);
    signal(SIGABRT, on_signal);
#endif
    std::ifstream in(argv[1]);
    if (!in)
    {
        fprintf(stderr, "cannot open %s\n", argv[1]);
        return 2;
    }
    static char obuf[1 << 16];
    setvbuf(stdout, obuf, _IOFBF, sizeof obuf);
    std::string line;
    // Two library slots: ops act on slot 0 unless they carry "lib": 1 (a second library open in the same process at the
    // same time); "observe_all_b" is observe_all on slot 1 under another name, so that judges can tell them apart.
    State slots[2];
    std::set<std::string> case_dirs;
    while (std::getline(in, line))
    {
        if (line.empty()) continue;
        json c = json::parse(line);
        emit({{"case", c["id"]}});
        slots[0].reset();
        slots[1].reset();
        // every case starts in UTC; an op may carry "tz" (a POSIX TZ string) to move the process into another zone
        setenv("TZ", "UTC0", 1);
        tzset();
        // ... and in the classic C++ locale; an op may carry "locale" to install a global locale with digit grouping
        std::locale::global(std::locale::classic());
        shim_disarm();
        shim_set_fault_site(false);
        shim_set_step_budget(50000000);
        shim_set_inflate_budget(100000);
        int i = 0;
        std::map<std::string, json> vars;
        for (auto& op_in : c["ops"])
        {
            json op = op_in;
            json ev;
            ev["i"] = i++;
            std::string name = op["op"].get<std::string>();
            ev["op"] = name;
            int slot = op.value("lib", 0) ? 1 : 0;
            if (name == "observe_all_b")
            {
                name = "observe_all";
                slot = 1;
            }
            State& st = slots[slot];
            if (op.contains("tz"))
            {
                setenv("TZ", op["tz"].get<std::string>().c_str(), 1);
                tzset();
            }
            if (op.contains("locale"))
                install_locale(op["locale"].get<std::string>());
            shim_begin_op();
            if (op.contains("fault"))
            {
                auto& f = op["fault"];
                shim_arm_fault(f.at("k").get<long long>(), f.value("code", 13), f.value("wo", false));
            }
            try
            {
                substitute(op, vars);
                if (op.contains("dir") && op["dir"].is_string())
                {
                    // "@W/name": a directory under the runner's scratch area, made on first use and removed when the case ends
                    auto d = op["dir"].get<std::string>();
                    if (d.rfind("@W/", 0) == 0)
                    {
                        const char* w = getenv("VERIF_WORKDIR");
                        std::string real = std::string(w ? w : "/dev/shm") + "/" + d.substr(3);
                        std::error_code ec;
                        std::filesystem::create_directories(real, ec);
                        case_dirs.insert(real);
                        op["dir"] = real;
                    }
                    else if (d.rfind("@R/", 0) == 0)
                    {
                        // "@R/name": the same, but handed to the library as a path RELATIVE to the working directory
                        // (the process moves into the scratch area first), the way a command-line tool run from the
                        // parent folder of "Engine Library" opens it
                        const char* w = getenv("VERIF_WORKDIR");
                        std::string base = w ? w : "/dev/shm";
                        if (chdir(base.c_str()) != 0) throw harness_error("cannot chdir to " + base);
                        std::string rel = d.substr(3);
                        std::error_code ec;
                        std::filesystem::create_directories(base + "/" + rel, ec);
                        case_dirs.insert(base + "/" + rel);
                        op["dir"] = rel;
                    }
                }
                if (op.contains("file") && op["file"].is_string())
                {
                    // a file inside such a directory ("@W/name/m.db", "@R/name/m.db")
                    auto f = op["file"].get<std::string>();
                    const char* w = getenv("VERIF_WORKDIR");
                    if (f.rfind("@W/", 0) == 0)
                        op["file"] = std::string(w ? w : "/dev/shm") + "/" + f.substr(3);
                    else if (f.rfind("@R/", 0) == 0)
                        op["file"] = f.substr(3);
                }
                json ret;
                bool ok = dispatch_api(st, name, op, ret) || dispatch_codec(st, name, op, ret) ||
                          dispatch_table(st, name, op, ret);
                if (!ok) throw harness_error("unknown op " + name);
                if (op.contains("bind"))
                {
                    json v = ret;
                    if (op.contains("bind_field"))
                    {
                        auto f = op["bind_field"].get<std::string>();
                        v = (!f.empty() && f[0] == '/') ? ret.at(json::json_pointer(f)) : ret.at(f);
                    }
                    if (op.contains("bind_index"))
                    {
                        size_t k = op["bind_index"].get<size_t>();
                        if (!v.is_array() || k >= v.size()) throw harness_error("bind_index out of range");
                        v = v[k];
                    }
                    if (op.value("bind_hex", false)) v = hex_of(v.get<std::string>());
                    vars[op["bind"].get<std::string>()] = v;
                }
                ev["ret"] = std::move(ret);
            }
            catch (const std::exception& e)
            {
                ev["exc"] = exception_to_json(e);
            }
            catch (...)
            {
                json x;
                x["std"] = false;
                auto* t = abi::__cxa_current_exception_type();
                x["type"] = t ? demangle(t->name()) : "unknown";
                x["is"] = json::array();
                ev["exc"] = x;
            }
            ev["sh"] = shim_json();
            shim_disarm();
            emit(ev);
        }
        slots[0].reset();
        slots[1].reset();
        for (auto& d : case_dirs)
        {
            std::error_code ec;
            std::filesystem::remove_all(d, ec);
        }
        case_dirs.clear();
        emit({{"end", c["id"]}});
    }
    return 0;
}
