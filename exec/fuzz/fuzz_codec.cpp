// libFuzzer target over the blob codec translation units (clang only).
// byte 0 selects the entry point, the rest is the input.  A successful decode
// is re-encoded and decoded again, so encoders see decoder-accepted values.
#include <dlfcn.h>
#include <zlib.h>

#include <cstdint>
#include <cstdio>
#include <cstdlib>
#include <cstring>
#include <exception>
#include <vector>

#include <djinterop/engine/v2/beat_data_blob.hpp>
#include <djinterop/engine/v2/loops_blob.hpp>
#include <djinterop/engine/v2/overview_waveform_data_blob.hpp>
#include <djinterop/engine/v2/quick_cues_blob.hpp>
#include <djinterop/engine/v2/track_data_blob.hpp>

#include "djinterop/engine/encode_decode_utils.hpp"
#include "djinterop/engine/v1/performance_data_format.hpp"

extern "C" void* __asan_region_is_poisoned(void* beg, size_t size);

static long g_inflate_calls = 0;

extern "C" int inflate(z_streamp strm, int flush)
{
    static auto fn = reinterpret_cast<int (*)(z_streamp, int)>(dlsym(RTLD_NEXT, "inflate"));
    if (strm && strm->avail_in > 0 && strm->next_in)
    {
        void* bad = __asan_region_is_poisoned(strm->next_in, strm->avail_in);
        if (bad)
        {
            fprintf(stderr, "VERIF-MONITOR: inflate input window of %u bytes is poisoned at offset %ld\n",
                    strm->avail_in, (long)((char*)bad - (char*)strm->next_in));
            abort();
        }
    }
    if (++g_inflate_calls > 100000)
    {
        fprintf(stderr, "VERIF-MONITOR: inflate call budget exceeded (decompression loop does not terminate)\n");
        abort();
    }
    return fn(strm, flush);
}

// Same allocation cap as the executor: a single request above 128 MiB fails
// with std::bad_alloc (a legal outcome) instead of ASan's fatal out-of-memory.
#include <new>
static void* capped(std::size_t n)
{
    if (n > ((std::size_t)128 << 20)) throw std::bad_alloc();
    void* p = std::malloc(n ? n : 1);
    if (!p) throw std::bad_alloc();
    return p;
}
void* operator new(std::size_t n) { return capped(n); }
void* operator new[](std::size_t n) { return capped(n); }
void operator delete(void* p) noexcept { std::free(p); }
void operator delete[](void* p) noexcept { std::free(p); }
void operator delete(void* p, std::size_t) noexcept { std::free(p); }
void operator delete[](void* p, std::size_t) noexcept { std::free(p); }

namespace v1 = djinterop::engine::v1;
namespace v2 = djinterop::engine::v2;

template <typename T>
static void v2rt(const std::vector<std::byte>& in)
{
    auto v = T::from_blob(in);
    auto b = v.to_blob();
    auto w = T::from_blob(b);
    (void)w;
}
template <typename T>
static void v1rt(const std::vector<std::byte>& in)
{
    auto v = T::decode(in);
    try
    {
        auto b = v.encode();
        auto w = T::decode(b);
        (void)w;
    }
    catch (const std::exception&)
    {
    }
}

extern "C" int LLVMFuzzerTestOneInput(const uint8_t* data, size_t size)
{
    if (size < 1) return 0;
    int sel = data[0] % 12;
    std::vector<std::byte> in(size - 1);
    if (size > 1) memcpy(in.data(), data + 1, size - 1);
    g_inflate_calls = 0;
    try
    {
        switch (sel)
        {
            case 0: v1rt<v1::beat_data>(in); break;
            case 1: v1rt<v1::high_res_waveform_data>(in); break;
            case 2: v1rt<v1::loops_data>(in); break;
            case 3: v1rt<v1::overview_waveform_data>(in); break;
            case 4: v1rt<v1::quick_cues_data>(in); break;
            case 5: v1rt<v1::track_data>(in); break;
            case 6: v2rt<v2::beat_data_blob>(in); break;
            case 7: v2rt<v2::loops_blob>(in); break;
            case 8: v2rt<v2::overview_waveform_data_blob>(in); break;
            case 9: v2rt<v2::quick_cues_blob>(in); break;
            case 10: v2rt<v2::track_data_blob>(in); break;
            case 11:
            {
                auto u = djinterop::engine::zlib_uncompress(in);
                (void)u;
                break;
            }
        }
    }
    catch (const std::exception&)
    {
    }
    return 0;
}
