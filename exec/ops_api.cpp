// Public-API operations (database / crate / track), observation and raw dumps.
#include <cfenv>
#include <atomic>
#include <thread>
#include <sqlite3.h>

#include <algorithm>
#include <filesystem>
#include <fstream>
#include <functional>

#include "common.hpp"

namespace eng = djinterop::engine;
void harness_sql_enter();
void harness_sql_leave();

std::optional<eng::engine_schema> schema_by_name(const std::string& n)
{
    for (int i = 0; i <= static_cast<int>(eng::engine_schema::schema_3_0_0); ++i)
    {
        auto s = static_cast<eng::engine_schema>(i);
        if (eng::to_string(s) == n) return s;
    }
    return std::nullopt;
}

static eng::engine_schema need_schema(const json& a)
{
    auto s = schema_by_name(a.at("schema").get<std::string>());
    if (!s) throw harness_error("unknown schema");
    return *s;
}

// ------------------------------------------------------------ value <-> json
static json color_j(const dj::pad_color& c) { return json::array({c.r, c.g, c.b, c.a}); }
static dj::pad_color j_color(const json& j)
{
    return dj::pad_color{
        (uint_least8_t)j[0].get<int>(), (uint_least8_t)j[1].get<int>(),
        (uint_least8_t)j[2].get<int>(), (uint_least8_t)j[3].get<int>()};
}
json hot_cue_to_json(const std::optional<dj::hot_cue>& c)
{
    if (!c) return nullptr;
    return {{"label", hex_of(c->label)}, {"off", dhex(c->sample_offset)}, {"color", color_j(c->color)}};
}
std::optional<dj::hot_cue> hot_cue_from_json(const json& j)
{
    if (j.is_null()) return std::nullopt;
    return dj::hot_cue{js(j.at("label")), jd(j.at("off")), j_color(j.at("color"))};
}
json loop_to_json(const std::optional<dj::loop>& c)
{
    if (!c) return nullptr;
    return {{"label", hex_of(c->label)},
            {"start", dhex(c->start_sample_offset)},
            {"end", dhex(c->end_sample_offset)},
            {"color", color_j(c->color)}};
}
std::optional<dj::loop> loop_from_json(const json& j)
{
    if (j.is_null()) return std::nullopt;
    return dj::loop{js(j.at("label")), jd(j.at("start")), jd(j.at("end")), j_color(j.at("color"))};
}
json beatgrid_to_json(const std::vector<dj::beatgrid_marker>& g)
{
    json a = json::array();
    for (auto& m : g) a.push_back(json::array({m.index, dhex(m.sample_offset)}));
    return a;
}
std::vector<dj::beatgrid_marker> beatgrid_from_json(const json& j)
{
    std::vector<dj::beatgrid_marker> g;
    for (auto& m : j) g.push_back(dj::beatgrid_marker{m[0].get<int>(), jd(m[1])});
    return g;
}
json waveform_to_json(const std::vector<dj::waveform_entry>& w)
{
    if (w.size() > 400000)
    {
        // too long to print: length and a digest instead
        uint64_t h = 1469598103934665603ull;
        for (auto& e : w)
            for (uint8_t b : {e.low.value, e.low.opacity, e.mid.value, e.mid.opacity, e.high.value, e.high.opacity})
            {
                h ^= b;
                h *= 1099511628211ull;
            }
        return json{{"entries", w.size()}, {"fnv", std::to_string(h)}};
    }
    std::string raw;
    raw.resize(w.size() * 6);
    for (size_t i = 0; i < w.size(); ++i)
    {
        raw[6 * i + 0] = (char)w[i].low.value;
        raw[6 * i + 1] = (char)w[i].low.opacity;
        raw[6 * i + 2] = (char)w[i].mid.value;
        raw[6 * i + 3] = (char)w[i].mid.opacity;
        raw[6 * i + 4] = (char)w[i].high.value;
        raw[6 * i + 5] = (char)w[i].high.opacity;
    }
    return hex_of(raw);
}
std::vector<dj::waveform_entry> waveform_from_json(const json& j)
{
    if (j.is_object() && j.contains("gen"))
    {
        // {"gen": n, "seed": s}: n pseudo-random entries made here (a multi-hour recording has millions of them; sending
        // them as text would only measure the JSON parser)
        size_t n = j["gen"].get<size_t>();
        uint64_t x = j.value("seed", (uint64_t)88172645463325252ull) | 1;
        std::vector<dj::waveform_entry> w(n);
        for (size_t i = 0; i < n; ++i)
        {
            x ^= x << 13;
            x ^= x >> 7;
            x ^= x << 17;
            w[i].low.value = (uint8_t)x;
            w[i].low.opacity = 255;
            w[i].mid.value = (uint8_t)(x >> 8);
            w[i].mid.opacity = 255;
            w[i].high.value = (uint8_t)(x >> 16);
            w[i].high.opacity = 255;
        }
        return w;
    }
    auto raw = js(j);
    std::vector<dj::waveform_entry> w(raw.size() / 6);
    for (size_t i = 0; i < w.size(); ++i)
    {
        w[i].low.value = (uint8_t)raw[6 * i + 0];
        w[i].low.opacity = (uint8_t)raw[6 * i + 1];
        w[i].mid.value = (uint8_t)raw[6 * i + 2];
        w[i].mid.opacity = (uint8_t)raw[6 * i + 3];
        w[i].high.value = (uint8_t)raw[6 * i + 4];
        w[i].high.opacity = (uint8_t)raw[6 * i + 5];
    }
    return w;
}
static json hot_cues_j(const std::vector<std::optional<dj::hot_cue>>& v)
{
    json a = json::array();
    for (auto& c : v) a.push_back(hot_cue_to_json(c));
    return a;
}
static std::vector<std::optional<dj::hot_cue>> j_hot_cues(const json& j)
{
    std::vector<std::optional<dj::hot_cue>> v;
    for (auto& c : j) v.push_back(hot_cue_from_json(c));
    return v;
}
static json loops_j(const std::vector<std::optional<dj::loop>>& v)
{
    json a = json::array();
    for (auto& c : v) a.push_back(loop_to_json(c));
    return a;
}
static std::vector<std::optional<dj::loop>> j_loops(const json& j)
{
    std::vector<std::optional<dj::loop>> v;
    for (auto& c : j) v.push_back(loop_from_json(c));
    return v;
}
static json okey_j(const std::optional<dj::musical_key>& k)
{
    return k ? json((int)*k) : json(nullptr);
}
static std::optional<dj::musical_key> j_okey(const json& j)
{
    if (j.is_null()) return std::nullopt;
    return static_cast<dj::musical_key>(j.get<int>());
}
static json odur_j(const std::optional<std::chrono::milliseconds>& d)
{
    return d ? json((int64_t)d->count()) : json(nullptr);
}
static std::optional<std::chrono::milliseconds> j_odur(const json& j)
{
    if (j.is_null()) return std::nullopt;
    return std::chrono::milliseconds{j.get<int64_t>()};
}

dj::track_snapshot snapshot_from_json(const json& j)
{
    dj::track_snapshot s{};
    auto has = [&](const char* k) { return j.contains(k); };
    if (has("album")) s.album = jos(j["album"]);
    if (has("artist")) s.artist = jos(j["artist"]);
    if (has("average_loudness")) s.average_loudness = jod(j["average_loudness"]);
    if (has("beatgrid")) s.beatgrid = beatgrid_from_json(j["beatgrid"]);
    if (has("bitrate")) s.bitrate = joi<int>(j["bitrate"]);
    if (has("bpm")) s.bpm = jod(j["bpm"]);
    if (has("comment")) s.comment = jos(j["comment"]);
    if (has("composer")) s.composer = jos(j["composer"]);
    if (has("duration")) s.duration = j_odur(j["duration"]);
    if (has("file_bytes")) s.file_bytes = joi<unsigned long long>(j["file_bytes"]);
    if (has("genre")) s.genre = jos(j["genre"]);
    if (has("hot_cues")) s.hot_cues = j_hot_cues(j["hot_cues"]);
    if (has("key")) s.key = j_okey(j["key"]);
    if (has("last_played_at")) s.last_played_at = jotp(j["last_played_at"]);
    if (has("loops")) s.loops = j_loops(j["loops"]);
    if (has("main_cue")) s.main_cue = jod(j["main_cue"]);
    if (has("publisher")) s.publisher = jos(j["publisher"]);
    if (has("rating")) s.rating = joi<int>(j["rating"]);
    if (has("relative_path")) s.relative_path = jos(j["relative_path"]);
    if (has("sample_count")) s.sample_count = joi<unsigned long long>(j["sample_count"]);
    if (has("sample_rate")) s.sample_rate = jod(j["sample_rate"]);
    if (has("title")) s.title = jos(j["title"]);
    if (has("track_number")) s.track_number = joi<int>(j["track_number"]);
    if (has("waveform")) s.waveform = waveform_from_json(j["waveform"]);
    if (has("year")) s.year = joi<int>(j["year"]);
    return s;
}

json snapshot_to_json(const dj::track_snapshot& s)
{
    json j;
    j["album"] = os_j(s.album);
    j["artist"] = os_j(s.artist);
    j["average_loudness"] = od_j(s.average_loudness);
    j["beatgrid"] = beatgrid_to_json(s.beatgrid);
    j["bitrate"] = oi_j(s.bitrate);
    j["bpm"] = od_j(s.bpm);
    j["comment"] = os_j(s.comment);
    j["composer"] = os_j(s.composer);
    j["duration"] = odur_j(s.duration);
    j["file_bytes"] = oi_j(s.file_bytes);
    j["genre"] = os_j(s.genre);
    j["hot_cues"] = hot_cues_j(s.hot_cues);
    j["key"] = okey_j(s.key);
    j["last_played_at"] = otp_j(s.last_played_at);
    j["loops"] = loops_j(s.loops);
    j["main_cue"] = od_j(s.main_cue);
    j["publisher"] = os_j(s.publisher);
    j["rating"] = oi_j(s.rating);
    j["relative_path"] = os_j(s.relative_path);
    j["sample_count"] = oi_j(s.sample_count);
    j["sample_rate"] = od_j(s.sample_rate);
    j["title"] = os_j(s.title);
    j["track_number"] = oi_j(s.track_number);
    j["waveform"] = waveform_to_json(s.waveform);
    j["year"] = oi_j(s.year);
    return j;
}

// ------------------------------------------------------------ track field table
struct FieldAccess
{
    std::function<json(dj::track&)> get;
    std::function<void(dj::track&, const json&)> set;
};
static const std::map<std::string, FieldAccess>& fields()
{
    static const std::map<std::string, FieldAccess> m = {
        {"album", {[](dj::track& t) { return os_j(t.album()); }, [](dj::track& t, const json& v) { t.set_album(jos(v)); }}},
        {"artist", {[](dj::track& t) { return os_j(t.artist()); }, [](dj::track& t, const json& v) { t.set_artist(jos(v)); }}},
        {"average_loudness", {[](dj::track& t) { return od_j(t.average_loudness()); }, [](dj::track& t, const json& v) { t.set_average_loudness(jod(v)); }}},
        {"beatgrid", {[](dj::track& t) { return beatgrid_to_json(t.beatgrid()); }, [](dj::track& t, const json& v) { t.set_beatgrid(beatgrid_from_json(v)); }}},
        {"bitrate", {[](dj::track& t) { return oi_j(t.bitrate()); }, [](dj::track& t, const json& v) { t.set_bitrate(joi<int>(v)); }}},
        {"bpm", {[](dj::track& t) { return od_j(t.bpm()); }, [](dj::track& t, const json& v) { t.set_bpm(jod(v)); }}},
        {"comment", {[](dj::track& t) { return os_j(t.comment()); }, [](dj::track& t, const json& v) { t.set_comment(jos(v)); }}},
        {"composer", {[](dj::track& t) { return os_j(t.composer()); }, [](dj::track& t, const json& v) { t.set_composer(jos(v)); }}},
        {"duration", {[](dj::track& t) { return odur_j(t.duration()); }, [](dj::track& t, const json& v) { t.set_duration(j_odur(v)); }}},
        {"genre", {[](dj::track& t) { return os_j(t.genre()); }, [](dj::track& t, const json& v) { t.set_genre(jos(v)); }}},
        {"hot_cues", {[](dj::track& t) { return hot_cues_j(t.hot_cues()); }, [](dj::track& t, const json& v) { t.set_hot_cues(j_hot_cues(v)); }}},
        {"key", {[](dj::track& t) { return okey_j(t.key()); }, [](dj::track& t, const json& v) { t.set_key(j_okey(v)); }}},
        {"last_played_at", {[](dj::track& t) { return otp_j(t.last_played_at()); }, [](dj::track& t, const json& v) { t.set_last_played_at(jotp(v)); }}},
        {"loops", {[](dj::track& t) { return loops_j(t.loops()); }, [](dj::track& t, const json& v) { t.set_loops(j_loops(v)); }}},
        {"main_cue", {[](dj::track& t) { return od_j(t.main_cue()); }, [](dj::track& t, const json& v) { t.set_main_cue(jod(v)); }}},
        {"publisher", {[](dj::track& t) { return os_j(t.publisher()); }, [](dj::track& t, const json& v) { t.set_publisher(jos(v)); }}},
        {"rating", {[](dj::track& t) { return oi_j(t.rating()); }, [](dj::track& t, const json& v) { t.set_rating(joi<int>(v)); }}},
        {"relative_path", {[](dj::track& t) { return json(hex_of(t.relative_path())); }, [](dj::track& t, const json& v) { t.set_relative_path(js(v)); }}},
        {"sample_count", {[](dj::track& t) { return oi_j(t.sample_count()); }, [](dj::track& t, const json& v) { t.set_sample_count(joi<unsigned long long>(v)); }}},
        {"sample_rate", {[](dj::track& t) { return od_j(t.sample_rate()); }, [](dj::track& t, const json& v) { t.set_sample_rate(jod(v)); }}},
        {"title", {[](dj::track& t) { return os_j(t.title()); }, [](dj::track& t, const json& v) { t.set_title(jos(v)); }}},
        {"track_number", {[](dj::track& t) { return oi_j(t.track_number()); }, [](dj::track& t, const json& v) { t.set_track_number(joi<int>(v)); }}},
        {"waveform", {[](dj::track& t) { return waveform_to_json(t.waveform()); }, [](dj::track& t, const json& v) { t.set_waveform(waveform_from_json(v)); }}},
        {"year", {[](dj::track& t) { return oi_j(t.year()); }, [](dj::track& t, const json& v) { t.set_year(joi<int>(v)); }}},
        {"filename", {[](dj::track& t) { return json(hex_of(t.filename())); }, nullptr}},
        {"file_extension", {[](dj::track& t) { return json(hex_of(t.file_extension())); }, nullptr}},
    };
    return m;
}

static json guarded(const std::function<json()>& f)
{
    try
    {
        return f();
    }
    catch (const std::exception& e)
    {
        json x = exception_to_json(e);
        return {{"exc", x["type"]}, {"is", x["is"]}};
    }
    catch (...)
    {
        return {{"exc", "non-std"}, {"nonstd", true}};
    }
}

// Listings whose order the API does not define are reported sorted, so that comparing two
// observations never depends on an unspecified order.
static json sorted_ids(json a)
{
    if (a.is_array()) std::sort(a.begin(), a.end());
    return a;
}

static json crate_ids(const std::vector<dj::crate>& v)
{
    json a = json::array();
    for (auto& c : v) a.push_back(c.id());
    return a;
}
static json track_ids(const std::vector<dj::track>& v)
{
    json a = json::array();
    for (auto& t : v) a.push_back(t.id());
    return a;
}

static json observe_track(dj::track& t, bool with_snapshot)
{
    json o;
    o["id"] = t.id();
    if (with_snapshot) o["snapshot"] = guarded([&] { return snapshot_to_json(t.snapshot()); });
    json g;
    for (auto& [name, acc] : fields())
        g[name] = guarded([&, a = &acc] { return a->get(t); });
    json hc = json::array(), lp = json::array();
    for (int i = 0; i < 8; ++i)
    {
        hc.push_back(guarded([&] { return hot_cue_to_json(t.hot_cue_at(i)); }));
        lp.push_back(guarded([&] { return loop_to_json(t.loop_at(i)); }));
    }
    g["hot_cue_at"] = hc;
    g["loop_at"] = lp;
    o["get"] = g;
    o["containing_crates"] = guarded([&] { return sorted_ids(crate_ids(t.containing_crates())); });
    return o;
}

static size_t g_max_names = 1000000;

static json observe_crate(State& st, dj::crate& c)
{
    json o;
    o["id"] = c.id();
    o["name"] = guarded([&] { return json(hex_of(c.name())); });
    o["parent"] = guarded([&] {
        auto p = c.parent();
        return p ? json(p->id()) : json(nullptr);
    });
    // sibling and entry order is meaningful on 2.x only
    o["children"] = guarded([&] { auto v = crate_ids(c.children()); return st.is_v2 ? v : sorted_ids(v); });
    o["descendants"] = guarded([&] { return sorted_ids(crate_ids(c.descendants())); });
    o["tracks"] = guarded([&] { auto v = track_ids(c.tracks()); return st.is_v2 ? v : sorted_ids(v); });
    json sub;
    size_t nn = 0;
    for (auto& n : st.names)
    {
        if (++nn > g_max_names) break;
        sub[hex_of(n)] = guarded([&] {
            auto s = c.sub_crate_by_name(n);
            return s ? json(s->id()) : json(nullptr);
        });
    }
    o["sub_crate_by_name"] = sub;
    return o;
}

static json observe_all(State& st, const json& a)
{
    g_max_names = a.value("max_names", (size_t)1000000);
    bool with_snapshot = a.value("snapshots", true);
    bool with_tracks = a.value("tracks", true);
    bool with_crates = a.value("crates", true);
    auto& db = st.D();
    json o;
    json d;
    d["uuid"] = guarded([&] { return json(db.uuid()); });
    d["version_name"] = guarded([&] { return json(db.version_name()); });
    d["directory"] = guarded([&] { return json(db.directory()); });
    if (a.value("verify", false))
        d["verify"] = guarded([&] {
            db.verify();
            return json(true);
        });
    std::set<int64_t> cids, tids;
    std::vector<dj::crate> live_crates;
    std::vector<dj::track> live_tracks;
    d["crates"] = guarded([&] {
        live_crates = db.crates();
        return sorted_ids(crate_ids(live_crates));
    });
    d["root_crates"] = guarded([&] { auto v = crate_ids(db.root_crates()); return st.is_v2 ? v : sorted_ids(v); });
    d["tracks"] = guarded([&] {
        live_tracks = db.tracks();
        return sorted_ids(track_ids(live_tracks));
    });
    for (auto& c : live_crates) cids.insert(c.id());
    for (auto& t : live_tracks) tids.insert(t.id());
    // handles
    json hc, ht;
    for (auto& [h, c] : st.crates)
    {
        json x;
        x["id"] = c.id();
        x["valid"] = guarded([&, cp = &c] { return json(cp->is_valid()); });
        hc[h] = x;
        cids.insert(c.id());
    }
    for (auto& [h, t] : st.tracks)
    {
        json x;
        x["id"] = t.id();
        x["valid"] = guarded([&, tp = &t] { return json(tp->is_valid()); });
        ht[h] = x;
        tids.insert(t.id());
    }
    o["crate_handles"] = hc;
    o["track_handles"] = ht;
    // the highest id in use is taken over live entities, handles and the small remembered ids (those of
    // handles released by a reopen), not over far-away probe ids
    for (auto i : st.ids)
        if ((i >= 0 && i < 100000) || st.held_ids.count(i))
        {
            cids.insert(i);
            tids.insert(i);
        }
    int64_t maxc = cids.empty() ? 0 : *cids.rbegin();
    int64_t maxt = tids.empty() ? 0 : *tids.rbegin();
    for (auto i : st.ids)
    {
        cids.insert(i);
        tids.insert(i);
    }
    // ids just above the highest known one are probed too ("probe_span" of them): some schema versions keep
    // internal placeholder rows there
    int span = a.value("probe_span", 1);
    for (int k = 1; k <= span; ++k)
    {
        cids.insert(maxc + k);
        tids.insert(maxt + k);
    }
    if (span > 1 && maxc < 200 && maxt < 200)
    {
        // dense probing of every small id, used or not
        for (int64_t i = 0; i <= maxc; ++i) cids.insert(i);
        for (int64_t i = 0; i <= maxt; ++i) tids.insert(i);
    }
    cids.insert(0);
    tids.insert(0);
    // lookups by id
    json cbi, tbi;
    std::map<int64_t, dj::crate> found_crates;
    std::map<int64_t, dj::track> found_tracks;
    for (auto i : cids)
        cbi[std::to_string(i)] = guarded([&] {
            auto c = db.crate_by_id(i);
            if (c)
            {
                found_crates.emplace(i, *c);
                return json(c->id());
            }
            return json(nullptr);
        });
    for (auto i : tids)
        tbi[std::to_string(i)] = guarded([&] {
            auto t = db.track_by_id(i);
            if (t)
            {
                found_tracks.emplace(i, *t);
                return json(t->id());
            }
            return json(nullptr);
        });
    d["crate_by_id"] = cbi;
    d["track_by_id"] = tbi;
    json cbn, rcbn, tbp;
    size_t nnames = 0;
    for (auto& n : st.names)
    {
        if (++nnames > g_max_names) break;
        cbn[hex_of(n)] = guarded([&] { return sorted_ids(crate_ids(db.crates_by_name(n))); });
        rcbn[hex_of(n)] = guarded([&] {
            auto c = db.root_crate_by_name(n);
            return c ? json(c->id()) : json(nullptr);
        });
    }
    for (auto& p : st.paths)
        tbp[hex_of(p)] = guarded([&] { return sorted_ids(track_ids(db.tracks_by_relative_path(p))); });
    d["crates_by_name"] = cbn;
    d["root_crate_by_name"] = rcbn;
    d["tracks_by_relative_path"] = tbp;
    o["db"] = d;
    // per-entity observations, for every live entity (found through crates()/tracks()
    // or through a by-id lookup)
    if (with_crates)
    {
        json oc;
        for (auto& c : live_crates) found_crates.emplace(c.id(), c);
        for (auto& [i, c] : found_crates) oc[std::to_string(i)] = observe_crate(st, c);
        o["crates"] = oc;
        // crate handles held since earlier steps must answer like handles obtained just now
        json cdis = json::array();
        int ccompared = 0;
        for (auto& [h, c] : st.crates)
        {
            auto it = oc.find(std::to_string(c.id()));
            if (it == oc.end()) continue;
            ++ccompared;
            json held = observe_crate(st, c);
            if (held != *it)
            {
                json fields_ = json::array();
                for (auto& [k, v] : held.items())
                    if (it->value(k, json()) != v) fields_.push_back(k);
                cdis.push_back({{"handle", h}, {"id", c.id()}, {"fields", fields_}});
            }
        }
        if (!cdis.empty()) o["held_crate_handles_disagree"] = cdis;
        o["held_crate_handles_compared"] = ccompared;
    }
    if (with_tracks)
    {
        json ot;
        for (auto& t : live_tracks) found_tracks.emplace(t.id(), t);
        for (auto& [i, t] : found_tracks) ot[std::to_string(i)] = observe_track(t, with_snapshot);
        o["tracks"] = ot;
        // handles the caller has been holding since earlier steps must answer like handles obtained just now
        json dis = json::array();
        int compared = 0;
        for (auto& [h, t] : st.tracks)
        {
            auto it = ot.find(std::to_string(t.id()));
            if (it == ot.end()) continue;
            ++compared;
            json held = observe_track(t, with_snapshot);
            if (held != *it)
            {
                json fields_ = json::array();
                if (held.contains("get") && it->contains("get"))
                    for (auto& [k, v] : held["get"].items())
                        if ((*it)["get"].value(k, json()) != v) fields_.push_back(k);
                if (held.value("snapshot", json()) != it->value("snapshot", json())) fields_.push_back("snapshot");
                dis.push_back({{"handle", h}, {"id", t.id()}, {"fields", fields_}});
            }
        }
        if (!dis.empty()) o["held_handles_disagree"] = dis;
        o["held_handles_compared"] = compared;
    }
    return o;
}

// ------------------------------------------------------------ raw sqlite access
static json col_value(sqlite3_stmt* s, int i)
{
    switch (sqlite3_column_type(s, i))
    {
        case SQLITE_INTEGER: return (int64_t)sqlite3_column_int64(s, i);
        case SQLITE_FLOAT: return {{"r", dhex(sqlite3_column_double(s, i))}};
        case SQLITE_TEXT:
            return {{"t", to_hex(sqlite3_column_text(s, i), sqlite3_column_bytes(s, i))}};
        case SQLITE_BLOB:
            return {{"b", to_hex(sqlite3_column_blob(s, i), sqlite3_column_bytes(s, i))}};
        default: return nullptr;
    }
}

struct HarnessSql
{
    HarnessSql() { harness_sql_enter(); }
    ~HarnessSql() { harness_sql_leave(); }
};

static json raw_query(sqlite3* c, const std::string& sql, const json& params = json::array())
{
    HarnessSql guard;
    sqlite3_stmt* s = nullptr;
    if (sqlite3_prepare_v2(c, sql.c_str(), -1, &s, nullptr) != SQLITE_OK)
        throw harness_error(std::string("raw prepare failed: ") + sqlite3_errmsg(c) + " :: " + sql);
    std::vector<std::string> keep;
    int idx = 1;
    for (auto& p : params)
    {
        if (p.is_null())
            sqlite3_bind_null(s, idx);
        else if (p.is_number_integer())
            sqlite3_bind_int64(s, idx, p.get<int64_t>());
        else if (p.is_object() && p.contains("r"))
            sqlite3_bind_double(s, idx, jd(p["r"]));
        else if (p.is_object() && p.contains("t"))
        {
            keep.push_back(js(p["t"]));
            sqlite3_bind_text(s, idx, keep.back().data(), (int)keep.back().size(), SQLITE_TRANSIENT);
        }
        else if (p.is_object() && p.contains("b"))
        {
            keep.push_back(js(p["b"]));
            sqlite3_bind_blob(s, idx, keep.back().data(), (int)keep.back().size(), SQLITE_TRANSIENT);
        }
        else
            throw harness_error("bad raw param");
        ++idx;
    }
    json out;
    json cols = json::array();
    int n = sqlite3_column_count(s);
    for (int i = 0; i < n; ++i) cols.push_back(sqlite3_column_name(s, i));
    json rows = json::array();
    int rc;
    while ((rc = sqlite3_step(s)) == SQLITE_ROW)
    {
        json r = json::array();
        for (int i = 0; i < n; ++i) r.push_back(col_value(s, i));
        rows.push_back(std::move(r));
    }
    std::string err = rc == SQLITE_DONE ? "" : sqlite3_errmsg(c);
    sqlite3_finalize(s);
    if (rc != SQLITE_DONE) throw harness_error("raw step failed: " + err + " :: " + sql);
    out["cols"] = cols;
    out["rows"] = rows;
    return out;
}

static sqlite3* lib_conn()
{
    auto v = shim_connections();
    if (v.empty()) throw harness_error("no captured connection");
    return v.back();
}

static std::string fnv_hex(const std::string& data)
{
    uint64_t h = 1469598103934665603ull;
    for (unsigned char c : data)
    {
        h ^= c;
        h *= 1099511628211ull;
    }
    char buf[17];
    snprintf(buf, sizeof buf, "%016llx", (unsigned long long)h);
    return buf;
}

static json rawdump(const json& a)
{
    sqlite3* c = lib_conn();
    json out;
    auto dbs = raw_query(c, "PRAGMA database_list");
    std::set<std::string> views;
    if (a.contains("views"))
        for (auto& v : a["views"]) views.insert(v.get<std::string>());
    bool checks = a.value("checks", true);
    for (auto& row : dbs["rows"])
    {
        std::string dbn = js(row[1]["t"]);
        json d;
        auto master = raw_query(c, "SELECT type, name, tbl_name, sql FROM \"" + dbn + "\".sqlite_master ORDER BY type, name");
        d["master"] = master["rows"];
        json tables;
        for (auto& m : master["rows"])
        {
            std::string type = js(m[0]["t"]);
            std::string name = js(m[1]["t"]);
            if (type == "table" || (type == "view" && views.count(name)))
            {
                tables[name] = raw_query(c, "SELECT * FROM \"" + dbn + "\".\"" + name + "\"");
            }
        }
        if (a.value("digest", false))
        {
            json dig;
            for (auto& [tn, tv] : tables.items()) dig[tn] = fnv_hex(tv.dump());
            d["tables"] = dig;
            d["master"] = fnv_hex(d["master"].dump());
        }
        else
            d["tables"] = tables;
        if (checks)
        {
            d["integrity_check"] = raw_query(c, "PRAGMA \"" + dbn + "\".integrity_check")["rows"];
            d["foreign_key_check"] = raw_query(c, "PRAGMA \"" + dbn + "\".foreign_key_check")["rows"];
        }
        out[dbn] = d;
    }
    return out;
}

// ------------------------------------------------------------ dispatch
bool dispatch_api(State& st, const std::string& op, const json& a, json& ret)
{
    auto note_name = [&](const std::string& n) { st.names.insert(n); };
    if (op == "create_temporary")
    {
        st.reset();
        auto s = need_schema(a);
        st.db = eng::create_temporary_database(s);
        st.schema_name = eng::to_string(s);
        st.is_v2 = s >= eng::engine_schema::schema_2_18_0;
        ret = true;
        return true;
    }
    if (op == "create")
    {
        st.reset();
        auto s = need_schema(a);
        st.db = eng::create_database(a.at("dir").get<std::string>(), s);
        st.schema_name = eng::to_string(s);
        st.is_v2 = s >= eng::engine_schema::schema_2_18_0;
        ret = true;
        return true;
    }
    if (op == "load")
    {
        st.reset();
        eng::engine_schema loaded = static_cast<eng::engine_schema>(-1);
        st.db = eng::load_database(a.at("dir").get<std::string>(), loaded);
        ret["loaded_schema"] = eng::to_string(loaded);
        ret["loaded_schema_ord"] = (int)loaded;
        ret["version_name"] = st.db->version_name();
        st.schema_name = st.db->version_name();
        st.is_v2 = st.schema_name.rfind("1.", 0) != 0;
        return true;
    }
    if (op == "create_or_load")
    {
        st.reset();
        bool created = false;
        eng::engine_schema loaded = static_cast<eng::engine_schema>(-1);
        if (a.value("alias", false))
        {
            // the caller's one variable serves as requested and as reported version
            eng::engine_schema both = need_schema(a);
            st.db = eng::create_or_load_database(a.at("dir").get<std::string>(), both, created, both);
            loaded = both;
        }
        else
            st.db = eng::create_or_load_database(a.at("dir").get<std::string>(), need_schema(a), created, loaded);
        ret["created"] = created;
        ret["loaded_schema"] = eng::to_string(loaded);
        ret["loaded_schema_ord"] = (int)loaded;
        ret["version_name"] = st.db->version_name();
        st.schema_name = st.db->version_name();
        st.is_v2 = st.schema_name.rfind("1.", 0) != 0;
        return true;
    }
    if (op == "create_from_scripts")
    {
        st.reset();
        eng::engine_schema loaded = static_cast<eng::engine_schema>(-1);
        st.db = eng::create_database_from_scripts(
            a.at("dir").get<std::string>(), a.at("scripts").get<std::string>(), loaded);
        ret["loaded_schema"] = eng::to_string(loaded);
        ret["version_name"] = st.db->version_name();
        st.schema_name = st.db->version_name();
        st.is_v2 = st.schema_name.rfind("1.", 0) != 0;
        return true;
    }
    if (op == "exists")
    {
        ret = eng::database_exists(a.at("dir").get<std::string>());
        return true;
    }
    if (op == "load_probe")
    {
        // load and immediately release, without disturbing the current state
        eng::engine_schema loaded = static_cast<eng::engine_schema>(-1);
        auto d = eng::load_database(a.at("dir").get<std::string>(), loaded);
        ret["loaded_schema"] = eng::to_string(loaded);
        ret["version_name"] = d.version_name();
        if (a.value("lookups", false))
        {
            // a read-only session that actually uses the library: listings and every kind of lookup, then the handle goes
            long long n = 0;
            (void)d.uuid();
            try
            {
                d.verify();
            }
            catch (const std::exception&)
            {
                // verify() may reject the library (it does when planner statistics are stored); still only an observation
            }
            long long limit = a.value("lookups_limit", 1000000LL), seen = 0;
            for (auto& c : d.crates())
            {
                if (++seen > limit) break;
                auto nm = c.name();
                n += (long long)c.children().size() + (long long)c.tracks().size() + (long long)c.descendants().size();
                if (d.root_crate_by_name(nm)) ++n;
                n += (long long)d.crates_by_name(nm).size();
                if (auto p = c.parent())
                    if (p->sub_crate_by_name(nm)) ++n;
                if (d.crate_by_id(c.id())) ++n;
            }
            seen = 0;
            for (auto& t : d.tracks())
            {
                if (++seen > limit) break;
                n += (long long)d.tracks_by_relative_path(t.relative_path()).size();
                if (d.track_by_id(t.id())) ++n;
                (void)t.snapshot();
            }
            n += (long long)d.root_crates().size();
            ret["lookups"] = n;
        }
        return true;
    }
    if (op == "release_all")
    {
        st.reset();
        ret = (int)shim_connections().size();
        return true;
    }
    if (op == "reopen")
    {
        // observe, release every handle and the database, load again from the directory,
        // re-acquire the handles that were valid by id, observe again
        auto dir = a.at("dir").get<std::string>();
        // ids of removed entities stay in play, so that both observations probe the same lookups
        for (auto& [h, t] : st.tracks) { st.ids.insert(t.id()); st.held_ids.insert(t.id()); }
        for (auto& [h, c] : st.crates) { st.ids.insert(c.id()); st.held_ids.insert(c.id()); }
        json before = observe_all(st, a);
        if (st.lib) before["tables"] = observe_tables(st, a);
        std::map<std::string, int64_t> th, ch;
        for (auto& [h, t] : st.tracks)
            if (t.is_valid()) th[h] = t.id();
        for (auto& [h, c] : st.crates)
            if (c.is_valid()) ch[h] = c.id();
        bool was_lib = st.lib.has_value();
        st.tracks.clear();
        st.crates.clear();
        st.last_snapshot.reset();
        st.lib.reset();
        st.db.reset();
        ret["conns_after_release"] = (int)shim_connections().size();
        eng::engine_schema loaded = static_cast<eng::engine_schema>(-1);
        if (was_lib)
        {
            st.lib = ev2::engine_library::load(dir);
            st.db = st.lib->database();
            loaded = st.lib->schema();
        }
        else
            st.db = eng::load_database(dir, loaded);
        ret["loaded_schema"] = eng::to_string(loaded);
        ret["version_name"] = st.db->version_name();
        for (auto& [h, i] : th)
        {
            auto t = st.db->track_by_id(i);
            if (t) st.tracks.insert_or_assign(h, *t);
        }
        for (auto& [h, i] : ch)
        {
            auto c = st.db->crate_by_id(i);
            if (c) st.crates.insert_or_assign(h, *c);
        }
        ret["before"] = before;
        json after = observe_all(st, a);
        if (st.lib) after["tables"] = observe_tables(st, a);
        ret["after"] = after;
        return true;
    }
    if (op == "file_digest")
    {
        // FNV-1a of every regular file below the directory (recursively), by relative path
        namespace fs = std::filesystem;
        json out = json::object();
        std::string dir = a.at("dir").get<std::string>();
        std::error_code ec;
        if (fs::exists(dir, ec))
            for (auto& e : fs::recursive_directory_iterator(dir, ec))
            {
                if (e.is_directory())
                {
                    out[fs::relative(e.path(), dir).string() + "/"] = "dir";
                    continue;
                }
                if (!e.is_regular_file()) continue;
                std::ifstream f(e.path(), std::ios::binary);
                std::string data((std::istreambuf_iterator<char>(f)), std::istreambuf_iterator<char>());
                out[fs::relative(e.path(), dir).string()] = fnv_hex(data) + ":" + std::to_string(data.size());
            }
        ret = out;
        return true;
    }
    if (op == "fault_sweep")
    {
        // Runs the inner (mutating) op with statement k = 1, 2, ... made to fail, each time from the
        // same state (legal because a correct failure changes nothing), comparing the full public
        // observation with the one taken before; stops at the first run in which the fault is not
        // reached (that run is the fault-free one and advances the history).
        const json& inner = a.at("inner");
        std::string iname = inner.at("op").get<std::string>();
        int code = a.value("code", 13);
        long long max_k = a.value("max_k", 400LL);
        json oa = a.value("observe", json::object());
        bool with_tables = a.value("tables", false);
        json obs0 = observe_all(st, oa);
        if (with_tables) obs0["tables"] = observe_tables(st, oa);
        // "stored": the content of every stored table (per-table digests of plain SELECT *) is compared as well - a row left
        // behind by a failed call that no accessor shows is still part of the database another reader opens
        bool with_stored = a.value("stored", false);
        json stored_args = {{"digest", true}, {"checks", false}};
        json dig0 = with_stored ? rawdump(stored_args) : json();
        // the sets of names / paths / ids to probe must not differ between the observations compared
        auto names0 = st.names;
        auto paths0 = st.paths;
        auto ids0 = st.ids;
        json runs = json::array();
        json out;
        out["statements"] = 0;
        out["stopped"] = "max_k";
        long long k_stride = a.value("k_stride", 1LL);   // > 1: only every k_stride-th statement is failed (long operations)
        // "at_prepare": the k-th statement fails when it is compiled (sqlite3_prepare_v2) instead of when it is first stepped
        struct SiteGuard { ~SiteGuard() { shim_set_fault_site(false); } } site_guard;
        shim_set_fault_site(a.value("at_prepare", false));
        for (long long k = 1; k <= max_k; k += k_stride)
        {
            shim_begin_op();
            shim_arm_fault(k, code, false);
            json r;
            r["k"] = k;
            bool threw = false;
            try
            {
                json iret;
                bool ok = true;
                if (a.value("unwinding", false))
                {
                    // the call is made from a destructor that runs while another exception is unwinding the stack (a scope guard
                    // in the caller's code): std::uncaught_exceptions() > 0 inside the library call
                    std::exception_ptr inner_err;
                    struct Guard
                    {
                        std::function<void()> f;
                        std::exception_ptr* e;
                        ~Guard()
                        {
                            try { f(); }
                            catch (...) { *e = std::current_exception(); }
                        }
                    };
                    try
                    {
                        Guard g{[&] { ok = dispatch_api(st, iname, inner, iret) || dispatch_table(st, iname, inner, iret); }, &inner_err};
                        throw std::runtime_error("the caller's own failure");
                    }
                    catch (const std::runtime_error&)
                    {
                    }
                    if (inner_err) std::rethrow_exception(inner_err);
                }
                else
                    ok = dispatch_api(st, iname, inner, iret) || dispatch_table(st, iname, inner, iret);
                if (!ok) throw harness_error("unknown inner op " + iname);
                r["ret"] = iret;
            }
            catch (const harness_error&)
            {
                shim_disarm();
                throw;
            }
            catch (const std::exception& e)
            {
                threw = true;
                auto x = exception_to_json(e);
                r["exc"] = x["type"];
                r["is"] = x["is"];
            }
            catch (...)
            {
                threw = true;
                r["exc"] = "non-std";
                r["nonstd"] = true;
            }
            bool fired = g_shim.fault_fired;
            std::string sql = g_shim.fault_sql;
            bool budget = g_shim.step_budget_exceeded;
            shim_disarm();
            r["threw"] = threw;
            if (budget) r["step_budget_exceeded"] = true;
            if (!fired)
            {
                // fault-free run
                out["final"] = r;
                out["statements"] = k - 1;
                out["stopped"] = "complete";
                break;
            }
            r["sql"] = sql;
            int txn = shim_any_in_txn();
            r["txn"] = txn;
            shim_begin_op();
            st.names = names0;
            st.paths = paths0;
            st.ids = ids0;
            json obs = observe_all(st, oa);
            if (with_tables) obs["tables"] = observe_tables(st, oa);
            bool same = obs == obs0;
            r["same"] = same;
            if (with_stored)
            {
                json dig = rawdump(stored_args);
                if (dig != dig0)
                {
                    json changed = json::array();
                    for (auto& [dbn, d] : dig.items())
                        for (auto& [tn, tv] : d["tables"].items())
                            if (!dig0.contains(dbn) || !dig0[dbn]["tables"].contains(tn) || dig0[dbn]["tables"][tn] != tv)
                                changed.push_back(dbn + "." + tn);
                    r["stored_changed"] = changed;
                    dig0 = dig;
                }
            }
            bool bad = !threw || !same || txn != 0;
            if (bad)
            {
                if (!same)
                {
                    r["before"] = obs0;
                    r["after"] = obs;
                }
                runs.push_back(r);
                out["violations"] = out.value("violations", 0) + 1;
                if (!a.value("keep_going", false) || out["violations"].get<int>() >= 5)
                {
                    out["stopped"] = "violation";
                    out["statements"] = k;
                    break;
                }
                // keep going from the state as it now is (the violation is recorded)
                obs0 = obs;
                continue;
            }
            runs.push_back(r);
        }
        out["runs"] = runs;
        ret = out;
        return true;
    }
    if (op == "release_handle")
    {
        auto h = a.at("h").get<std::string>();
        ret = (int)(st.tracks.erase(h) + st.crates.erase(h));
        return true;
    }
    if (op == "verify")
    {
        st.D().verify();
        ret = true;
        return true;
    }
    if (op == "note")
    {
        if (a.contains("names"))
            for (auto& n : a["names"]) st.names.insert(js(n));
        if (a.contains("paths"))
            for (auto& n : a["paths"]) st.paths.insert(js(n));
        if (a.contains("ids"))
            for (auto& n : a["ids"]) st.ids.insert(n.get<int64_t>());
        ret = true;
        return true;
    }
    // ---- tracks
    if (op == "create_track")
    {
        auto snap = snapshot_from_json(a.at("snap"));
        if (snap.relative_path) st.paths.insert(*snap.relative_path);
        auto t = st.D().create_track(snap);
        ret = t.id();
        st.tracks.insert_or_assign(a.at("as").get<std::string>(), t);
        return true;
    }
    if (op == "update")
    {
        auto snap = snapshot_from_json(a.at("snap"));
        if (snap.relative_path) st.paths.insert(*snap.relative_path);
        st.T(a.at("t").get<std::string>()).update(snap);
        ret = true;
        return true;
    }
    if (op == "snapshot")
    {
        st.last_snapshot = st.T(a.at("t").get<std::string>()).snapshot();
        ret = snapshot_to_json(*st.last_snapshot);
        return true;
    }
    if (op == "update_last")
    {
        // writes the snapshot most recently read back (by the "snapshot" op)
        if (!st.last_snapshot) throw harness_error("no snapshot read yet");
        st.T(a.at("t").get<std::string>()).update(*st.last_snapshot);
        ret = true;
        return true;
    }
    if (op == "set")
    {
        auto& t = st.T(a.at("t").get<std::string>());
        auto f = a.at("field").get<std::string>();
        auto it = fields().find(f);
        if (it == fields().end() || !it->second.set) throw harness_error("no setter " + f);
        if (f == "relative_path") st.paths.insert(js(a.at("value")));
        it->second.set(t, a.at("value"));
        ret = true;
        return true;
    }
    if (op == "get")
    {
        auto& t = st.T(a.at("t").get<std::string>());
        auto it = fields().find(a.at("field").get<std::string>());
        if (it == fields().end()) throw harness_error("no getter");
        ret = it->second.get(t);
        return true;
    }
    if (op == "set_at")
    {
        auto& t = st.T(a.at("t").get<std::string>());
        int idx = a.at("index").get<int>();
        if (a.at("field") == "hot_cue")
            t.set_hot_cue_at(idx, hot_cue_from_json(a.at("value")));
        else
            t.set_loop_at(idx, loop_from_json(a.at("value")));
        ret = true;
        return true;
    }
    if (op == "get_at")
    {
        auto& t = st.T(a.at("t").get<std::string>());
        int idx = a.at("index").get<int>();
        if (a.at("field") == "hot_cue")
            ret = hot_cue_to_json(t.hot_cue_at(idx));
        else
            ret = loop_to_json(t.loop_at(idx));
        return true;
    }
    if (op == "remove_track")
    {
        st.D().remove_track(st.T(a.at("t").get<std::string>()));
        ret = true;
        return true;
    }
    if (op == "track_by_id")
    {
        auto t = st.D().track_by_id(a.at("id").get<int64_t>());
        if (t && a.contains("as")) st.tracks.insert_or_assign(a["as"].get<std::string>(), *t);
        ret = t ? json(t->id()) : json(nullptr);
        return true;
    }
    if (op == "containing_crates")
    {
        ret = crate_ids(st.T(a.at("t").get<std::string>()).containing_crates());
        return true;
    }
    // ---- crates
    if (op == "create_root_crate")
    {
        auto n = js(a.at("name"));
        note_name(n);
        auto c = st.D().create_root_crate(n);
        ret = c.id();
        st.crates.insert_or_assign(a.at("as").get<std::string>(), c);
        return true;
    }
    if (op == "create_root_crate_after")
    {
        auto n = js(a.at("name"));
        note_name(n);
        auto c = st.D().create_root_crate_after(n, st.C(a.at("after").get<std::string>()));
        ret = c.id();
        st.crates.insert_or_assign(a.at("as").get<std::string>(), c);
        return true;
    }
    if (op == "create_sub_crate")
    {
        auto n = js(a.at("name"));
        note_name(n);
        auto c = st.C(a.at("c").get<std::string>()).create_sub_crate(n);
        ret = c.id();
        st.crates.insert_or_assign(a.at("as").get<std::string>(), c);
        return true;
    }
    if (op == "create_sub_crate_after")
    {
        auto n = js(a.at("name"));
        note_name(n);
        auto c = st.C(a.at("c").get<std::string>()).create_sub_crate_after(n, st.C(a.at("after").get<std::string>()));
        ret = c.id();
        st.crates.insert_or_assign(a.at("as").get<std::string>(), c);
        return true;
    }
    if (op == "set_name")
    {
        auto n = js(a.at("name"));
        note_name(n);
        st.C(a.at("c").get<std::string>()).set_name(n);
        ret = true;
        return true;
    }
    if (op == "set_parent")
    {
        std::optional<dj::crate> p;
        if (!a.at("parent").is_null()) p = st.C(a["parent"].get<std::string>());
        st.C(a.at("c").get<std::string>()).set_parent(p);
        ret = true;
        return true;
    }
    if (op == "remove_crate")
    {
        st.D().remove_crate(st.C(a.at("c").get<std::string>()));
        ret = true;
        return true;
    }
    if (op == "crate_by_id")
    {
        auto c = st.D().crate_by_id(a.at("id").get<int64_t>());
        if (c && a.contains("as")) st.crates.insert_or_assign(a["as"].get<std::string>(), *c);
        ret = c ? json(c->id()) : json(nullptr);
        return true;
    }
    if (op == "add_track")
    {
        st.C(a.at("c").get<std::string>()).add_track(st.T(a.at("t").get<std::string>()));
        ret = true;
        return true;
    }
    if (op == "add_track_via_id")
    {
        // the int64_t overload, with the id of a known track
        st.C(a.at("c").get<std::string>()).add_track(st.T(a.at("t").get<std::string>()).id());
        ret = true;
        return true;
    }
    if (op == "add_track_id")
    {
        st.C(a.at("c").get<std::string>()).add_track(a.at("id").get<int64_t>());
        ret = true;
        return true;
    }
    if (op == "remove_track_from")
    {
        st.C(a.at("c").get<std::string>()).remove_track(st.T(a.at("t").get<std::string>()));
        ret = true;
        return true;
    }
    if (op == "clear_tracks")
    {
        st.C(a.at("c").get<std::string>()).clear_tracks();
        ret = true;
        return true;
    }
    if (op == "bulk_fill")
    {
        // A long list: n tracks created through the API (minimal snapshots, paths "<prefix>/<i>.mp3") and added to one crate, in
        // that order.  {"c": crate handle, "n": N, "prefix": hex, "keep": [i...]}: the tracks at the indices in "keep" stay
        // available as handles "<as>_<i>".  Returns the ids in insertion order.
        auto& c = st.C(a.at("c").get<std::string>());
        long long n = a.at("n").get<long long>();
        std::string prefix = js(a.at("prefix"));
        std::string as = a.value("as", std::string("bulk"));
        std::set<long long> keep;
        if (a.contains("keep"))
            for (auto& k : a["keep"]) keep.insert(k.get<long long>());
        json ids = json::array();
        for (long long i = 0; i < n; ++i)
        {
            dj::track_snapshot sn;
            sn.relative_path = prefix + "/" + std::to_string(i) + ".mp3";
            auto t = st.D().create_track(sn);
            c.add_track(t);
            ids.push_back(t.id());
            if (keep.count(i)) st.tracks.insert_or_assign(as + "_" + std::to_string(i), t);
        }
        ret = ids;
        return true;
    }
    if (op == "crate_query")
    {
        auto& c = st.C(a.at("c").get<std::string>());
        auto q = a.at("q").get<std::string>();
        if (q == "name") ret = hex_of(c.name());
        else if (q == "parent") { auto p = c.parent(); ret = p ? json(p->id()) : json(nullptr); }
        else if (q == "children") ret = crate_ids(c.children());
        else if (q == "descendants") ret = crate_ids(c.descendants());
        else if (q == "tracks") ret = track_ids(c.tracks());
        else if (q == "is_valid") ret = c.is_valid();
        else if (q == "id") ret = c.id();
        else if (q == "db_uuid") ret = c.db().uuid();
        else if (q == "sub_crate_by_name") { auto s = c.sub_crate_by_name(js(a.at("name"))); ret = s ? json(s->id()) : json(nullptr); }
        else throw harness_error("bad crate query");
        return true;
    }
    if (op == "db_query")
    {
        auto& d = st.D();
        auto q = a.at("q").get<std::string>();
        if (q == "crates") ret = crate_ids(d.crates());
        else if (q == "root_crates") ret = crate_ids(d.root_crates());
        else if (q == "tracks") ret = track_ids(d.tracks());
        else if (q == "crates_by_name") ret = crate_ids(d.crates_by_name(js(a.at("name"))));
        else if (q == "root_crate_by_name") { auto c = d.root_crate_by_name(js(a.at("name"))); ret = c ? json(c->id()) : json(nullptr); }
        else if (q == "tracks_by_relative_path") ret = track_ids(d.tracks_by_relative_path(js(a.at("path"))));
        else if (q == "uuid") ret = d.uuid();
        else if (q == "version_name") ret = d.version_name();
        else if (q == "directory") ret = d.directory();
        else throw harness_error("bad db query");
        return true;
    }
    if (op == "handle_ops")
    {
        // The operations the documented contract allows on any handle,
        // including handles to removed entities: copy, assign, destroy, id().
        auto h = a.at("h").get<std::string>();
        json r;
        if (st.tracks.count(h))
        {
            auto& t = st.tracks.at(h);
            dj::track copy{t};
            dj::track other{t};
            other = copy;
            copy = copy;
            r["id"] = copy.id();
            r["valid"] = copy.is_valid();
            r["same"] = other.id() == t.id();
        }
        else
        {
            if (!st.crates.count(h)) throw harness_error("harness: no handle " + h);
            auto& c = st.crates.at(h);
            dj::crate copy{c};
            dj::crate other{c};
            other = copy;
            copy = copy;
            r["id"] = copy.id();
            r["valid"] = copy.is_valid();
            r["same"] = other.id() == c.id();
        }
        ret = r;
        return true;
    }
    // ---- observation
    if (op == "observe_all")
    {
        ret = observe_all(st, a);
        return true;
    }
    if (op == "rawdump")
    {
        ret = rawdump(a);
        return true;
    }
    if (op == "foreign_rows")
    {
        // Rows in the tables this library never writes but Engine DJ does (prepare list, history, copy records), naming one of
        // the library's tracks.  {"t": handle}
        sqlite3* conn = lib_conn();
        int64_t tid = st.T(a.at("t").get<std::string>()).id();
        auto has = [&](const std::string& name) {
            // (from 1.9.1 on the per-kind list tables are views over List / ListTrackList with INSTEAD OF triggers)
            return !raw_query(conn, st.is_v2 ? "SELECT 1 FROM sqlite_master WHERE type IN ('table', 'view') AND name = ?"
                                             : "SELECT 1 FROM music.sqlite_master WHERE type IN ('table', 'view') AND name = ?",
                              json::array({json{{"t", hex_of(name)}}}))["rows"].empty();
        };
        json made = json::array();
        if (st.is_v2)
        {
            raw_query(conn, "INSERT INTO PreparelistEntity (trackId, trackNumber) VALUES (?, (SELECT COALESCE(MAX(trackNumber), 0) + 1 FROM PreparelistEntity))",
                      json::array({tid}));
            made.push_back("PreparelistEntity");
        }
        else
        {
            // (the lists get the id the caller names - list ids of the different kinds live in separate id spaces and
            // routinely coincide with crate ids)
            int64_t lid = a.value("list_id", (int64_t)1);
            std::string ls = std::to_string(lid);
            if (has("Preparelist") && has("PreparelistTrackList"))
            {
                raw_query(conn, "INSERT OR IGNORE INTO Preparelist (id, title) VALUES (" + ls + ", 'Prepare " + ls + "')");
                raw_query(conn, "INSERT OR IGNORE INTO PreparelistTrackList (playlistId, trackId, trackIdInOriginDatabase, databaseUuid, trackNumber) "
                                "VALUES (" + ls + ", ?, ?, 'foreign', 1)", json::array({tid, tid}));
                made.push_back("PreparelistTrackList");
            }
            if (has("Historylist") && has("HistorylistTrackList"))
            {
                raw_query(conn, "INSERT OR IGNORE INTO Historylist (id, title) VALUES (" + ls + ", 'History " + ls + "')");
                raw_query(conn, "INSERT OR IGNORE INTO HistorylistTrackList (historylistId, trackId, trackIdInOriginDatabase, databaseUuid, date) "
                                "VALUES (" + ls + ", ?, ?, 'foreign', 1600000000)", json::array({tid, tid}));
                made.push_back("HistorylistTrackList");
            }
            if (has("Playlist") && has("PlaylistTrackList"))
            {
                raw_query(conn, "INSERT OR IGNORE INTO Playlist (id, title) VALUES (" + ls + ", 'Foreign playlist " + ls + "')");
                raw_query(conn, "INSERT OR IGNORE INTO PlaylistTrackList (playlistId, trackId, trackIdInOriginDatabase, databaseUuid, trackNumber) "
                                "VALUES (" + ls + ", ?, ?, 'foreign', 1)", json::array({tid, tid}));
                made.push_back("PlaylistTrackList");
            }
            if (has("CopiedTrack"))
            {
                raw_query(conn, "INSERT OR IGNORE INTO CopiedTrack (trackId, uuidOfSourceDatabase, idOfTrackInSourceDatabase) VALUES (?, 'foreign', 7)",
                          json::array({tid}));
                made.push_back("CopiedTrack");
            }
        }
        ret = made;
        return true;
    }
    if (op == "touch_track_files")
    {
        // The audio files the tracks name really exist next to the library (as on a USB stick prepared for a player): a small
        // regular file is written at <dir>/<relative path> for every track whose path stays inside <dir>.  With "clear_sizes"
        // the stored file size of every other track is removed by SQL (exporters do not always know it).
        namespace fs = std::filesystem;
        fs::path base = fs::path(a.at("dir").get<std::string>()).lexically_normal();
        std::string bs = base.string();
        if (!bs.empty() && bs.back() == '/') bs.pop_back();
        int made = 0, skipped = 0;
        for (auto& t : st.D().tracks())
        {
            std::string rp = t.relative_path();
            fs::path p = (fs::path(bs) / rp).lexically_normal();
            std::string ps = p.string();
            if (rp.empty() || rp.find('\0') != std::string::npos || rp[0] == '/' || ps.rfind(bs + "/", 0) != 0 || ps.size() > 900)
            {
                ++skipped;
                continue;
            }
            std::error_code ec;
            fs::create_directories(p.parent_path(), ec);
            if (fs::exists(p, ec) && !fs::is_regular_file(p, ec))
            {
                ++skipped;
                continue;
            }
            std::ofstream f(ps, std::ios::binary);
            if (!f)
            {
                ++skipped;
                continue;
            }
            std::string body(1000 + (size_t)(t.id() % 977), 'a');
            f.write(body.data(), (std::streamsize)body.size());
            ++made;
        }
        if (a.value("clear_sizes", false))
        {
            sqlite3* conn = lib_conn();
            auto info = raw_query(conn, st.is_v2 ? "PRAGMA table_info(Track)" : "PRAGMA music.table_info(Track)");
            for (auto& r : info["rows"])
                if (js(r[1].at("t")) == "fileBytes") raw_query(conn, "UPDATE Track SET fileBytes = NULL WHERE id % 2 = 0");
        }
        ret["made"] = made;
        ret["skipped"] = skipped;
        return true;
    }
    if (op == "foreign_flags")
    {
        // Track columns that only Engine DJ (or the low-level 2.x table API) writes - locks, play state, import and streaming
        // markers - set by SQL on one track ({"t": handle}) or on all of them.  Columns a version lacks are skipped.
        sqlite3* conn = lib_conn();
        auto info = raw_query(conn, st.is_v2 ? "PRAGMA table_info(Track)" : "PRAGMA music.table_info(Track)");
        std::set<std::string> cols;
        for (auto& r : info["rows"]) cols.insert(js(r[1].at("t")));
        static const std::vector<std::pair<std::string, int>> cand = {
            {"isBeatGridLocked", 1}, {"pdbImportKey", 9}, {"isMetadataImported", 1}, {"playedIndicator", 7}, {"explicitLyrics", 1},
            {"thirdPartySourceId", 3}, {"streamingFlags", 5}, {"isPlayed", 1}, {"isAvailable", 0},
            {"isMetadataOfPackedTrackChanged", 1}, {"isPerfomanceDataOfPackedTrackChanged", 1}};
        std::string set;
        json made = json::array();
        long long pick = a.value("pick", -1LL);   // bit mask over the candidates; -1 = all
        int bit = 0;
        for (auto& [name, val] : cand)
        {
            bool want = pick < 0 || ((pick >> bit) & 1);
            ++bit;
            if (!want || !cols.count(name)) continue;
            set += (set.empty() ? "" : ", ") + name + " = " + std::to_string(val);
            made.push_back(name);
        }
        if (!set.empty())
        {
            if (a.contains("t"))
                raw_query(conn, "UPDATE Track SET " + set + " WHERE id = ?", json::array({st.T(a.at("t").get<std::string>()).id()}));
            else
                raw_query(conn, "UPDATE Track SET " + set);
        }
        ret = made;
        return true;
    }
    if (op == "foreign_crate")
    {
        // A 2.x crate row as another writer leaves it: inserted by SQL (the schema's own triggers link it into the
        // sibling chain), with the flags of the caller's choosing - the crate API always writes isPersisted = 1.
        if (!st.is_v2) throw harness_error("foreign_crate is for 2.x libraries");
        sqlite3* conn = lib_conn();
        int64_t parent = 0;
        if (a.contains("c") && !a["c"].is_null()) parent = st.C(a["c"].get<std::string>()).id();
        raw_query(conn,
                  "INSERT INTO Playlist (title, parentListId, isPersisted, nextListId, lastEditTime, isExplicitlyExported) "
                  "VALUES (?, ?, ?, 0, '2024-05-01 12:00:00', ?)",
                  json::array({json{{"t", a.at("name")}}, parent, a.value("persisted", false) ? 1 : 0, a.value("exported", false) ? 1 : 0}));
        int64_t id = raw_query(conn, "SELECT MAX(id) FROM Playlist")["rows"][0][0].get<int64_t>();
        auto c = st.D().crate_by_id(id);
        if (c && a.contains("as")) st.crates.insert_or_assign(a["as"].get<std::string>(), *c);
        st.names.insert(js(a.at("name")));
        ret = id;
        return true;
    }
    if (op == "copy_file")
    {
        std::error_code ec;
        ret = std::filesystem::copy_file(a.at("from").get<std::string>(), a.at("to").get<std::string>(),
                                         std::filesystem::copy_options::overwrite_existing, ec);
        return true;
    }
    if (op == "remove_file")
    {
        // the user deletes one file of a library (m.db, to "reset" it) and leaves the rest
        std::error_code ec;
        ret = std::filesystem::remove(a.at("path").get<std::string>(), ec);
        return true;
    }
    if (op == "wipe_dir")
    {
        // empties a directory (the user deletes a library in order to start again in the same place)
        namespace fs = std::filesystem;
        int n = 0;
        std::error_code ec;
        for (auto& e : fs::directory_iterator(a.at("dir").get<std::string>(), ec))
        {
            fs::remove_all(e.path(), ec);
            ++n;
        }
        ret = n;
        return true;
    }
    if (op == "foreign_reorder")
    {
        // What Engine DJ does when the user drags the last item of a list to the top: the chain is re-linked by a
        // foreign writer, so that chain order no longer follows id order.  2.x only; nothing happens with < 2 items.
        // {"c": handle}            -> the entries of that crate
        // {"siblings_of": handle|null} -> the child crates of that crate (or the root crates)
        if (!st.is_v2) throw harness_error("foreign_reorder is for 2.x libraries");
        sqlite3* conn = lib_conn();
        bool ents = a.contains("c");
        int64_t key = 0;
        if (ents)
            key = st.C(a.at("c").get<std::string>()).id();
        else if (!a.at("siblings_of").is_null())
            key = st.C(a.at("siblings_of").get<std::string>()).id();
        json rows = raw_query(conn, ents ? "SELECT id, nextEntityId FROM PlaylistEntity WHERE listId = ?"
                                         : "SELECT id, nextListId FROM Playlist WHERE parentListId = ?",
                              json::array({key}))["rows"];
        std::map<int64_t, int64_t> next;
        std::set<int64_t> pointed;
        for (auto& r : rows)
        {
            next[r[0].get<int64_t>()] = r[1].get<int64_t>();
            if (r[1].get<int64_t>() != 0) pointed.insert(r[1].get<int64_t>());
        }
        ret["items"] = (int)next.size();
        ret["moved"] = false;
        if (next.size() >= 2)
        {
            int64_t first = 0, last = 0, before_last = 0;
            for (auto& [id, nx] : next)
            {
                if (!pointed.count(id)) first = id;
                if (nx == 0) last = id;
            }
            for (auto& [id, nx] : next)
                if (nx == last) before_last = id;
            if (first && last && before_last && first != last)
            {
                const char* tbl = ents ? "PlaylistEntity" : "Playlist";
                const char* col = ents ? "nextEntityId" : "nextListId";
                raw_query(conn, std::string("UPDATE ") + tbl + " SET " + col + " = 0 WHERE id = ?", json::array({before_last}));
                raw_query(conn, std::string("UPDATE ") + tbl + " SET " + col + " = ? WHERE id = ?", json::array({first, last}));
                ret["moved"] = true;
                ret["moved_id"] = last;
            }
        }
        return true;
    }
    if (op == "deviate")
    {
        // A structural deviation made by another tool: a second connection to one database file enumerates sqlite_master and
        // applies the pick-th applicable change of the given kind.  {"file": path, "kind": K, "pick": n}; returns the SQL run
        // (empty when the kind has nothing to act on or SQLite refuses it).
        HarnessSql guard;
        sqlite3* c = nullptr;
        if (sqlite3_open_v2(a.at("file").get<std::string>().c_str(), &c, SQLITE_OPEN_READWRITE, nullptr) != SQLITE_OK)
        {
            if (c) sqlite3_close_v2(c);
            throw harness_error("deviate: cannot open the file");
        }
        std::string kind = a.at("kind").get<std::string>();
        size_t pick = a.value("pick", 0);
        json done = json::array();
        try
        {
            auto names = [&](const std::string& where) {
                std::vector<std::string> v;
                json res = raw_query(c, "SELECT name FROM sqlite_master WHERE " + where + " ORDER BY name");
                for (auto& r : res["rows"]) v.push_back(js(r[0].at("t")));
                return v;
            };
            auto q = [](const std::string& n) { return "\"" + n + "\""; };
            auto tables = names("type = 'table' AND name NOT LIKE 'sqlite_%'");
            auto run = [&](const std::string& sql) {
                raw_query(c, sql);
                done.push_back(sql);
            };
            auto first_col = [&](const std::string& t, size_t k) {
                auto rows = raw_query(c, "PRAGMA table_info(" + q(t) + ")")["rows"];
                return js(rows[k % rows.size()][1].at("t"));
            };
            if (kind == "drop_index" || kind == "drop_all_indexes")
            {
                std::vector<std::string> with;
                for (auto& t : tables)
                    if (!names("type = 'index' AND sql IS NOT NULL AND tbl_name = '" + t + "'").empty()) with.push_back(t);
                if (!with.empty())
                {
                    auto idx = names("type = 'index' AND sql IS NOT NULL AND tbl_name = '" + with[pick % with.size()] + "'");
                    if (kind == "drop_index")
                        run("DROP INDEX " + q(idx[pick % idx.size()]));
                    else
                        for (auto& i : idx) run("DROP INDEX " + q(i));
                }
            }
            else if (kind == "drop_view" || kind == "drop_trigger")
            {
                auto v = names(std::string("type = '") + (kind == "drop_view" ? "view" : "trigger") + "'");
                if (!v.empty()) run(std::string(kind == "drop_view" ? "DROP VIEW " : "DROP TRIGGER ") + q(v[pick % v.size()]));
            }
            else if (kind == "drop_table" && !tables.empty())
                run("DROP TABLE " + q(tables[pick % tables.size()]));
            else if (kind == "empty_table" && !tables.empty())
                run("DELETE FROM " + q(tables[pick % tables.size()]));
            else if (kind == "add_table")
                run("CREATE TABLE DeviationExtra (x INTEGER)");
            else if (kind == "add_view")
                run("CREATE VIEW DeviationExtraView AS SELECT 1 AS one");
            else if (kind == "add_index" && !tables.empty())
                run("CREATE INDEX deviation_extra_idx ON " + q(tables[pick % tables.size()]) + " (" + q(first_col(tables[pick % tables.size()], pick / 7)) + ")");
            else if (kind == "add_column" && !tables.empty())
                run("ALTER TABLE " + q(tables[pick % tables.size()]) + " ADD COLUMN deviationExtra INTEGER");
            else if (kind == "rename_table" && !tables.empty())
                run("ALTER TABLE " + q(tables[pick % tables.size()]) + " RENAME TO " + q(tables[pick % tables.size()] + "Renamed"));
            else if (kind == "rename_column" && !tables.empty())
            {
                auto t = tables[pick % tables.size()];
                auto col = first_col(t, pick / 7);
                run("ALTER TABLE " + q(t) + " RENAME COLUMN " + q(col) + " TO " + q(col + "Renamed"));
            }
            else if (kind == "drop_column" && !tables.empty())
            {
                auto t = tables[pick % tables.size()];
                run("ALTER TABLE " + q(t) + " DROP COLUMN " + q(first_col(t, pick / 7)));
            }
        }
        catch (const harness_error& e)
        {
            // SQLite refused the change (a view depends on the column, ...): nothing was deviated
            done.push_back(std::string("refused: ") + e.what());
        }
        sqlite3_close_v2(c);
        ret = done;
        return true;
    }
    if (op == "other_writer_exec")
    {
        // Another writer: a separate SQLite connection to one database file of the library, opened, used for the statements
        // given and closed again while the library's own handles stay open.  {"file": path, "sql": [..]}
        HarnessSql guard;
        sqlite3* c = nullptr;
        if (sqlite3_open_v2(a.at("file").get<std::string>().c_str(), &c, SQLITE_OPEN_READWRITE, nullptr) != SQLITE_OK)
        {
            std::string e = c ? sqlite3_errmsg(c) : "?";
            if (c) sqlite3_close_v2(c);
            throw harness_error("other writer cannot open the file: " + e);
        }
        json done = json::array();
        try
        {
            sqlite3_busy_timeout(c, 2000);
            for (auto& q : a.at("sql")) done.push_back(raw_query(c, q.get<std::string>())["rows"].size());
        }
        catch (...)
        {
            sqlite3_close_v2(c);
            throw;
        }
        sqlite3_close_v2(c);
        ret = done;
        return true;
    }
    if (op == "raw_exec")
    {
        ret = raw_query(lib_conn(), a.at("sql").get<std::string>(), a.value("params", json::array()));
        return true;
    }
    if (op == "counters")
    {
        ret["total_changes"] = shim_total_changes();
        ret["txn"] = shim_any_in_txn();
        ret["conns"] = (int)shim_connections().size();
        return true;
    }
    if (op == "set_guard")
    {
        st.guard = a.value("on", true);
        ret = true;
        return true;
    }
    if (op == "set_budget")
    {
        if (a.contains("vdbe")) shim_set_step_budget(a["vdbe"].get<long long>());
        if (a.contains("inflate")) shim_set_inflate_budget(a["inflate"].get<long long>());
        ret = true;
        return true;
    }
    // ---- pure functions
    if (op == "extents")
    {
        // items: [[count, rate_dhex], ...] -> [[hsize, hspe, osize, ospe], ...]
        // "fpround": the calling thread's floating-point rounding mode while the functions run (a DSP host or an interval-arithmetic
        // library may have left it at something other than round-to-nearest)
        struct RoundGuard
        {
            int old = fegetround();
            ~RoundGuard() { fesetround(old); }
        } round_guard;
        std::string fr = a.value("fpround", std::string());
        if (fr == "down") fesetround(FE_DOWNWARD);
        else if (fr == "up") fesetround(FE_UPWARD);
        else if (fr == "zero") fesetround(FE_TOWARDZERO);
        json out = json::array();
        for (auto& it : a.at("items"))
        {
            auto count = it[0].get<unsigned long long>();
            double rate = jd(it[1]);
            auto h = eng::calculate_high_resolution_waveform_extents(count, rate);
            auto o = eng::calculate_overview_waveform_extents(count, rate);
            out.push_back(json::array({h.size, dhex(h.samples_per_entry), o.size, dhex(o.samples_per_entry)}));
        }
        ret = out;
        return true;
    }
    if (op == "mt_extents" || op == "mt_normalize")
    {
        // The same pure functions called from several threads at once, each thread with its own argument list (lists
        // deliberately differ, e.g. 44.1 kHz tracks on one thread and 48 kHz tracks on another).  Results come back per thread;
        // under the tsan build any unsynchronised shared state inside the functions is reported by ThreadSanitizer.
        const auto& lists = a.at("lists");
        size_t nt = lists.size();
        std::vector<json> outs(nt);
        int rounds = a.value("rounds", 1);
        std::atomic<int> ready{0};
        std::vector<std::thread> threads;
        bool ext = op == "mt_extents";
        for (size_t t = 0; t < nt; ++t)
        {
            threads.emplace_back([&, t] {
                // parse first, then wait for the others, so that the calls overlap
                std::vector<std::pair<unsigned long long, double>> pts;
                std::vector<std::pair<std::vector<dj::beatgrid_marker>, int64_t>> grids;
                if (ext)
                    for (auto& it : lists[t]) pts.emplace_back(it[0].get<unsigned long long>(), jd(it[1]));
                else
                    for (auto& it : lists[t]) grids.emplace_back(beatgrid_from_json(it.at("grid")), it.at("count").get<int64_t>());
                ++ready;
                while (ready.load() < (int)nt) std::this_thread::yield();
                json out = json::array();
                for (int r = 0; r < rounds; ++r)
                {
                    bool keep = r == rounds - 1;
                    if (ext)
                        for (auto& [count, rate] : pts)
                        {
                            auto h = eng::calculate_high_resolution_waveform_extents(count, rate);
                            auto o = eng::calculate_overview_waveform_extents(count, rate);
                            if (keep) out.push_back(json::array({h.size, dhex(h.samples_per_entry), o.size, dhex(o.samples_per_entry)}));
                        }
                    else
                        for (auto& [g0, count] : grids)
                        {
                            try
                            {
                                auto g = eng::normalize_beatgrid(g0, count);
                                if (keep) out.push_back({{"grid", beatgrid_to_json(g)}});
                            }
                            catch (const std::exception& e)
                            {
                                if (keep)
                                {
                                    auto x = exception_to_json(e);
                                    out.push_back({{"exc", x["type"]}, {"is", x["is"]}});
                                }
                            }
                        }
                }
                outs[t] = std::move(out);
            });
        }
        for (auto& th : threads) th.join();
        ret = json(outs);
        return true;
    }
    if (op == "normalize")
    {
        // items: [{"grid": [[idx, off]...], "count": n}] -> [{"grid":..} | {"exc":..}]
        json out = json::array();
        for (auto& it : a.at("items"))
        {
            try
            {
                auto g = eng::normalize_beatgrid(beatgrid_from_json(it.at("grid")), it.at("count").get<int64_t>());
                out.push_back({{"grid", beatgrid_to_json(g)}});
            }
            catch (const std::exception& e)
            {
                auto x = exception_to_json(e);
                out.push_back({{"exc", x["type"]}, {"is", x["is"]}});
            }
            catch (...)
            {
                out.push_back({{"exc", "non-std"}, {"nonstd", true}});
            }
        }
        ret = out;
        return true;
    }
    return false;
}
